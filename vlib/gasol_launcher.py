"""Launches the real _fp = os.environ.get("GASOL_VERIF_FAILPOINT")
if _fp:
    # failpoint: the front-end raises for one block (C10 fault injection).  mode "original-only" fails the
    # analysis of the block as read from the input; "all-analyses" also fails the re-analysis done for verification.
    import sfs_generator.ir_block as _irb
    _orig_compiler = _irb.evm2rbr_compiler
    _mode = os.environ.get("GASOL_VERIF_FAILPOINT_MODE", "all-analyses")
    _hits = [0]

    def failing(*a, **k):
        name = k.get("block_name", "")
        if name == _fp or (_mode == "all-analyses" and name == "alreadyOptimized_" + _fp):
            _hits[0] += 1
            if _mode == "all-analyses" or _hits[0] == 1:
                raise Exception("Error in RBR generation", 4)
        return _orig_compiler(*a, **k)
    _irb.evm2rbr_compiler = failing

gasol_asm.main_gasol() with (a) its temporary directory moved into the current
working directory (so parallel runs and clean-up cannot interfere) and (b), when
GASOL_VERIF_SOLVER is set, the solver executables rebound to the stand-in solver.
Nothing else is changed: arguments, working directory and outputs are the CLI's own."""
import os
import sys

_REPO = os.environ.get("GASOL_VERIF_REPO", "/repo")
sys.path.insert(0, _REPO)
sys.argv[0] = _REPO + "/gasol_asm.py"
import global_params.paths as paths  # noqa: E402

_tmp = os.path.join(os.getcwd(), ".gasol_tmp") + "/"
os.makedirs(_tmp, exist_ok=True)
paths.tmp_path = _tmp
paths.gasol_path = _tmp + paths.gasol_folder + "/"
paths.json_path = paths.gasol_path + "jsons"
paths.smt_encoding_path = paths.gasol_path + "smt_encoding/"
paths.solutions_path = paths.gasol_path + "solutions/"
paths.dot_path = paths.gasol_path + "dot/"
paths.csv_file = paths.gasol_path + "solutions/statistics.csv"

_solver = os.environ.get("GASOL_VERIF_SOLVER")
if _solver:
    paths.z3_exec = _solver
    paths.oms_exec = _solver
    paths.bclt_exec = _solver

import gasol_asm  # noqa: E402

if _solver:
    import smt_encoding.solver.z3_executable as _z3e
    import smt_encoding.solver.oms_executable as _omse
    _z3e.z3_exec = _solver
    _omse.oms_exec = _solver

_fp = os.environ.get("GASOL_VERIF_FAILPOINT")
if _fp:
    # failpoint: the front-end raises for one block (C10 fault injection).  mode "original-only" fails the
    # analysis of the block as read from the input; "all-analyses" also fails the re-analysis done for verification.
    import sfs_generator.ir_block as _irb
    _orig_compiler = _irb.evm2rbr_compiler
    _mode = os.environ.get("GASOL_VERIF_FAILPOINT_MODE", "all-analyses")
    _hits = [0]

    def failing(*a, **k):
        name = k.get("block_name", "")
        if name == _fp or (_mode == "all-analyses" and name == "alreadyOptimized_" + _fp):
            _hits[0] += 1
            if _mode == "all-analyses" or _hits[0] == 1:
                raise Exception("Error in RBR generation", 4)
        return _orig_compiler(*a, **k)
    _irb.evm2rbr_compiler = failing

gasol_asm.main_gasol()
