"""Launches the real gasol_asm.main_gasol() with (a) its temporary directory moved into the current
working directory (so parallel runs and clean-up cannot interfere) and (b), when
GASOL_VERIF_SOLVER is set, the solver executables rebound to the stand-in solver.
Nothing else is changed: arguments, working directory and outputs are the CLI's own."""
import os
import sys

sys.path.insert(0, "/repo")
sys.argv[0] = "/repo/gasol_asm.py"
import global_params.paths as paths  # noqa: E402

_tmp = os.path.join(os.getcwd(), ".gasol_tmp") + "/"
os.makedirs(_tmp, exist_ok=True)
paths.tmp_path = _tmp
paths.gasol_path = _tmp + paths.gasol_folder + "/"
paths.json_path = paths.gasol_path + "jsons"
paths.smt_encoding_path = paths.gasol_path + "smt_encoding/"
paths.solutions_path = paths.gasol_path + "solutions/"
paths.dot_path = paths.gasol_path + "dot/"
paths.csv_file = paths.gasol_path + "solutions/statistics.csv"

_solver = os.environ.get("GASOL_VERIF_SOLVER")
if _solver:
    paths.z3_exec = _solver
    paths.oms_exec = _solver
    paths.bclt_exec = _solver

import gasol_asm  # noqa: E402

if _solver:
    import smt_encoding.solver.z3_executable as _z3e
    import smt_encoding.solver.oms_executable as _omse
    _z3e.z3_exec = _solver
    _omse.oms_exec = _solver

gasol_asm.main_gasol()
