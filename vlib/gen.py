"""Workload generators (independent of the repository).

Blocks are lists of (name, value) pairs (see vlib.evm).  Everything is driven by
a random.Random instance handed in by the caller.
"""
import random
from .opsem import MASK, SIGN, BOUNDARY
from . import evm

UN = ["ISZERO", "NOT"]
BIN = ["ADD", "MUL", "SUB", "DIV", "SDIV", "MOD", "SMOD", "EXP", "SIGNEXTEND", "LT", "GT", "SLT", "SGT",
       "EQ", "AND", "OR", "XOR", "BYTE", "SHL", "SHR", "SAR"]
TER = ["ADDMOD", "MULMOD"]
ENV0 = ["ADDRESS", "ORIGIN", "CALLER", "CALLVALUE", "CALLDATASIZE", "CODESIZE", "GASPRICE", "COINBASE",
        "TIMESTAMP", "NUMBER", "GASLIMIT", "CHAINID", "SELFBALANCE", "BASEFEE", "RETURNDATASIZE",
        "DIFFICULTY"]
ENV1 = ["BALANCE", "CALLDATALOAD", "EXTCODESIZE", "EXTCODEHASH", "BLOCKHASH"]
SMALL_ADDRS = [0, 1, 0x1f, 0x20, 0x21, 0x3f, 0x40, 0x41, 0x60, 0x80]
CONST_POOL = BOUNDARY + [4, 5, 7, 8, 15, 16, 0x1f, 0x20, 0x40, 0x60, 0x80, 0xff, 0xffff, 0xffffffff,
                         (1 << 160) - 1, (1 << 128), (1 << 64) - 1, (1 << 96), 1 << 248, 1 << 224]


def hexv(v):
    return "%x" % v


def rand_const(rnd, hostile=False):
    r = rnd.random()
    if r < 0.45:
        return rnd.choice(CONST_POOL)
    if r < 0.7:
        return rnd.randrange(0, 300)
    if r < 0.8:
        return 1 << rnd.randrange(0, 256)
    if r < 0.88:
        return (1 << rnd.randrange(1, 257)) - 1
    nb = rnd.randrange(1, 33)
    return rnd.getrandbits(8 * nb)


# ------------------------------------------------------------------ expression trees
# tree: ('in', i) | ('c', v) | ('op', name, [children]) | ('env', name) | ('pp', name, value)
def rand_tree(rnd, depth, nin, ops=None, pleaf_const=0.45, shared=None):
    if depth <= 0 or rnd.random() < 0.18:
        r = rnd.random()
        if shared and r < 0.15:
            return rnd.choice(shared)
        if nin and r > pleaf_const:
            return ("in", rnd.randrange(nin))
        if r < 0.04:
            return ("env", rnd.choice(ENV0))
        return ("c", rand_const(rnd))
    r = rnd.random()
    if r < 0.2:
        return ("op", rnd.choice(UN), [rand_tree(rnd, depth - 1, nin, ops, pleaf_const, shared)])
    if r < 0.93:
        op = rnd.choice(ops or BIN)
        a = rand_tree(rnd, depth - 1, nin, ops, pleaf_const, shared)
        if rnd.random() < 0.2:
            b = a
        else:
            b = rand_tree(rnd, depth - 1, nin, ops, pleaf_const, shared)
        return ("op", op, [a, b])
    if r < 0.97:
        return ("op", rnd.choice(TER), [rand_tree(rnd, depth - 1, nin, ops, pleaf_const, shared) for _ in range(3)])
    return ("op", rnd.choice(ENV1), [rand_tree(rnd, depth - 1, nin, ops, pleaf_const, shared)])


def compile_tree(t, extra, out, nin_total):
    """Append code computing t on top of the stack.  `extra` = values currently above the
    original inputs.  children are compiled last-operand-first so children[0] ends on top.
    Returns False if an input is out of DUP reach."""
    k = t[0]
    if k == "c":
        out.append(("PUSH", hexv(t[1])))
        return True
    if k == "in":
        d = extra + t[1] + 1
        if d > 16:
            return False
        out.append(("DUP%d" % d, None))
        return True
    if k == "env":
        out.append((t[1], None))
        return True
    if k == "pp":
        out.append((t[1], t[2]))
        return True
    name, ch = t[1], t[2]
    e = extra
    for c in reversed(ch):
        if not compile_tree(c, e, out, nin_total):
            return False
        e += 1
    out.append((name, None))
    if len(t) > 3:
        out.extend(t[3])      # tap: a second consumer of this intermediate value (net stack effect 0)
    return True


def add_tap(rnd, t):
    """Give one inner operation of the tree a second consumer (its value is duplicated and stored, possibly
    through another operation), so that rules which delete or rewrite an intermediate instruction meet a
    value that is still needed elsewhere."""
    inner = []

    def walk(n, root):
        if n[0] == "op":
            if not root:
                inner.append(n)
            for c in n[2]:
                walk(c, False)
    walk(t, True)
    if not inner:
        return t
    target = rnd.choice(inner)
    a = ("PUSH", hexv(rnd.choice(SMALL_ADDRS)))
    st = (rnd.choice(["MSTORE", "SSTORE", "MSTORE8"]), None)
    r = rnd.random()
    if r < 0.3:
        code = [("DUP1", None), a, st]
    elif r < 0.55:
        code = [("DUP1", None), (rnd.choice(UN), None), a, st]
    elif r < 0.8:
        code = [("DUP1", None), ("PUSH", hexv(rand_const(rnd))), (rnd.choice(BIN), None), a, st]
    else:
        code = [("DUP1", None), ("DUP1", None), (rnd.choice(BIN), None), a, st]

    def rebuild(n):
        if n is target:
            return ("op", n[1], [rebuild(c) for c in n[2]], code)
        if n[0] == "op":
            return ("op", n[1], [rebuild(c) for c in n[2]]) + tuple(n[3:])
        return n
    return rebuild(t)


# Patterns written from reading the rule code: left-hand sides of every conditional rule,
# instantiated over operand classes.  X,Y,Z are filled with sub-trees.
SIGNED_B = [1 << 255, (1 << 255) + 1, (1 << 255) - 1, MASK, MASK - 1, 0, 1]


def _P(rnd, nin):
    def L():
        r = rnd.random()
        if nin and r < 0.6:
            return ("in", rnd.randrange(nin))
        if r < 0.8:
            return ("c", rand_const(rnd))
        return rand_tree(rnd, 1, nin)
    X, Y, Z = L(), L(), L()
    c = lambda v: ("c", v)
    op = lambda n, *a: ("op", n, list(a))
    sw = lambda n, a, b: op(n, a, b) if rnd.random() < 0.5 else op(n, b, a)
    cmpop = rnd.choice(["GT", "SGT", "LT", "SLT", "EQ"])
    pats = [
        op("ISZERO", op("GT", X, c(0))), op("GT", c(1), X), op("ISZERO", op("ISZERO", op(cmpop, X, Y))),
        op("ISZERO", op("ISZERO", op("ISZERO", X))), op("EQ", c(1), op("ISZERO", X)),
        op("EQ", op("ISZERO", X), c(1)), op("ISZERO", op("LT", c(0), X)), op("LT", X, c(1)),
        sw("EQ", c(0), X), op("ISZERO", op("SUB", X, Y)), op("ISZERO", op("XOR", X, Y)),
        sw("AND", X, op("AND", X, Y)), sw("AND", X, op("AND", Y, X)), sw("AND", X, op("OR", X, Y)),
        sw("OR", X, op("AND", X, Y)), sw("OR", op("OR", X, Y), Y), sw("XOR", X, op("XOR", X, Y)),
        sw("XOR", X, op("XOR", Y, X)), sw("AND", X, op("NOT", X)), sw("OR", X, op("NOT", X)),
        op("NOT", op("NOT", X)), op("EXP", c(2), X), op("EXP", c(0), X), op("EXP", X, c(0)), op("EXP", X, c(1)),
        op("EXP", c(1), X), op("EXP", c(rnd.choice([2, 4, 16, 256])), X),
        sw("MUL", X, op("SHL", Y, c(1))), sw("MUL", op("SHL", X, c(1)), Y), op("DIV", X, op("SHL", Y, c(1))),
        op("AND", op("SHL", X, Y), op("SHL", X, Z)), op("AND", op("SHL", Y, X), op("SHL", Z, X)),
        op("BALANCE", ("env", "ADDRESS")), sw("AND", ("env", "ADDRESS"), c((1 << 160) - 1)),
        sw("AND", ("env", rnd.choice(["ORIGIN", "CALLER", "COINBASE"])), c((1 << 160) - 1)),
        sw("AND", ("env", "ADDRESS"), c(rnd.choice([(1 << 160), (1 << 159) - 1, (1 << 161) - 1, MASK]))),
        op(rnd.choice(["DIV", "SDIV", "MOD", "SMOD", "SUB", "XOR", "AND", "OR", "EQ", "LT", "GT", "SLT", "SGT"]), X, X),
        op(rnd.choice(["SHL", "SHR", "SAR"]), c(0), X), op(rnd.choice(["SHL", "SHR", "SAR"]), X, c(0)),
        op(rnd.choice(["SHL", "SHR", "SAR"]), c(rnd.choice([1, 8, 255, 256, 257, MASK])), X),
        op(rnd.choice(["DIV", "SDIV", "MOD", "SMOD", "MUL", "ADD", "SUB"]), X, c(rnd.choice([0, 1, 2, MASK]))),
        op(rnd.choice(["DIV", "SDIV", "MOD", "SMOD", "MUL", "ADD", "SUB"]), c(rnd.choice([0, 1, 2, MASK])), X),
        op(rnd.choice(["GT", "LT", "SGT", "SLT"]), c(0), X), op(rnd.choice(["GT", "LT", "SGT", "SLT"]), X, c(0)),
        op(rnd.choice(["AND", "OR", "XOR"]), X, c(rnd.choice([0, MASK]))),
        op("ISZERO", c(rnd.choice([0, 1, 2]))), op("NOT", c(rand_const(rnd))),
        # near misses: the same shapes with the operands of the non-commutative operation (or of the pattern's
        # inner operation) exchanged, the signed variant, or the constant one off -- a rule must NOT fire or must
        # fire with the mirrored result
        op("DIV", op("SHL", Y, c(1)), X), op("SDIV", X, op("SHL", Y, c(1))), op("DIV", X, op("SHL", c(1), Y)),
        op("MUL", X, op("SHL", c(1), Y)), op("DIV", X, op("SHL", Y, c(2))), op("MOD", X, op("SHL", Y, c(1))),
        op(rnd.choice(["LT", "GT", "SLT", "SGT"]), X, c(1)), op(rnd.choice(["LT", "GT", "SLT", "SGT"]), c(1), X),
        op("ISZERO", op(rnd.choice(["LT", "SLT", "SGT"]), X, c(0))), op("ISZERO", op(rnd.choice(["GT", "SLT", "SGT"]), c(0), X)),
        op("EQ", c(rnd.choice([1, 2, MASK])), X), op("EQ", op("ISZERO", X), c(rnd.choice([0, 2]))),
        op("EXP", X, c(2)), op("EXP", c(MASK), X), op("SUB", c(0), X), op("ISZERO", op("ADD", X, Y)),
        op("ISZERO", op("ISZERO", op("ISZERO", op("ISZERO", X)))), op("NOT", op("ISZERO", op("NOT", X))),
        sw("AND", X, op("OR", Y, Z)), sw("OR", X, op("AND", Y, Z)), sw("XOR", X, op("XOR", Y, Z)), sw("AND", X, op("NOT", Y)),
        sw("AND", op("SHL", X, Y), op("SHR", X, Z)), op("AND", op("SHL", X, Y), op("SHL", Z, Y)),
        op("BALANCE", ("env", rnd.choice(["CALLER", "ORIGIN"]))), sw("AND", ("env", "CALLVALUE"), c((1 << 160) - 1)),
        # signed operations on the boundary of the two's complement range (INT_MIN = 2^255 and its neighbours)
        op("SAR", c(rnd.choice([1, 4, 8, 255, 256, 257])), c(rnd.choice(SIGNED_B))),
        op(rnd.choice(["SDIV", "SMOD", "SLT", "SGT"]), c(rnd.choice(SIGNED_B)), c(rnd.choice(SIGNED_B + [2, 3]))),
        op("SIGNEXTEND", c(rnd.choice([0, 1, 30, 31, 32])), c(rnd.choice([0x7f, 0x80, 0xff, 0x7fff, 0x8000, 0xffff] + SIGNED_B))),
        op(rnd.choice(["SHL", "SHR"]), c(rnd.choice([1, 255, 256])), c(rnd.choice(SIGNED_B))),
        # pure constant folding, boundary operands
        op(rnd.choice(BIN), c(rnd.choice(CONST_POOL)), c(rnd.choice(CONST_POOL))),
        op(rnd.choice(BIN), c(rand_const(rnd)), c(rand_const(rnd))),
        op(rnd.choice(TER), c(rand_const(rnd)), c(rand_const(rnd)), c(rnd.choice([0, 1, 2, 7, MASK, rand_const(rnd)]))),
        op(rnd.choice(TER), X, Y, c(rnd.choice([0, 1, 2]))),
        op("SIGNEXTEND", c(rnd.choice([0, 1, 30, 31, 32])), c(rand_const(rnd))),
        op("BYTE", c(rnd.choice([0, 1, 31, 32])), c(rand_const(rnd))),
    ]
    return rnd.choice(pats)


def _wrap(rnd, t, nin):
    """random context around a pattern"""
    r = rnd.random()
    if r < 0.35:
        return t
    if r < 0.5:
        return ("op", rnd.choice(UN), [t])
    o = rnd.choice(BIN)
    other = ("in", rnd.randrange(nin)) if nin and rnd.random() < 0.6 else ("c", rand_const(rnd))
    return ("op", o, [t, other]) if rnd.random() < 0.5 else ("op", o, [other, t])


def gen_rule_block(rnd, hostile=False):
    """Rule-directed block: 1-3 pattern instances in contexts; results left on the stack,
    consumed twice, fed to a store address/value, or chained."""
    nin = rnd.choice([0, 1, 1, 2, 2, 3, 4])
    out = []
    extra = 0
    n_stmt = rnd.choice([1, 1, 1, 2, 2, 3])
    for _ in range(n_stmt):
        t = _wrap(rnd, _P(rnd, nin), nin)
        if rnd.random() < 0.15:
            t = ("op", rnd.choice(BIN), [t, _wrap(rnd, _P(rnd, nin), nin)])
        if rnd.random() < 0.25:
            t = add_tap(rnd, t)
        code = []
        if not compile_tree(t, extra, code, nin):
            continue
        out.extend(code)
        extra += 1
        r = rnd.random()
        if r < 0.12:
            out.append(("DUP1", None))
            extra += 1
        elif r < 0.2:
            out.append(("PUSH", hexv(rnd.choice(SMALL_ADDRS))))
            out.append((rnd.choice(["MSTORE", "SSTORE", "MSTORE8"]), None))
            extra -= 1
        elif r < 0.26:
            out.append((rnd.choice(["MLOAD", "SLOAD"]), None))
        elif r < 0.3 and extra >= 1:
            out.append(("POP", None))
            extra -= 1
    # final shuffling of the stack
    h = extra + nin
    for _ in range(rnd.choice([0, 0, 1, 2])):
        if h >= 2 and rnd.random() < 0.6:
            out.append(("SWAP%d" % rnd.randrange(1, min(h, 17)), None))
        elif h >= 1 and rnd.random() < 0.5:
            out.append(("POP", None))
            h -= 1
    if not out:
        out = [("PUSH", "0"), ("POP", None)]
    return out


# ------------------------------------------------------------------ grammar blocks
SPLITS = ["LOG0", "LOG1", "LOG2", "LOG3", "LOG4", "CALLDATACOPY", "CODECOPY", "RETURNDATACOPY", "EXTCODECOPY",
          "CALL", "STATICCALL", "DELEGATECALL", "CREATE", "CREATE2", "ASSIGNIMMUTABLE"]
PSEUDO = ["PUSH [tag]", "PUSH data", "PUSH [$]", "PUSH #[$]", "PUSHLIB", "PUSHIMMUTABLE", "PUSHSIZE",
          "PUSHDEPLOYADDRESS"]


def pseudo_item(rnd, name=None):
    name = name or rnd.choice(PSEUDO)
    if name == "PUSH [tag]":
        return (name, str(rnd.randrange(1, 40)))
    if name == "PUSH data":
        return (name, "%064X" % rnd.choice([rnd.getrandbits(256), rnd.getrandbits(250) | (1 << 255)]))
    if name in ("PUSH [$]", "PUSH #[$]"):
        return (name, "%064x" % rnd.choice([0, 1, 2, 9, 10, 11, 17, 255]))
    if name == "PUSHLIB":
        return (name, rnd.choice(["lib/A.sol:A", "lib/B.sol:B", "C"]))
    if name == "PUSHIMMUTABLE":
        return (name, str(rnd.randrange(100, 2000)))
    return (name, None)


class Profile:
    def __init__(self, **kw):
        self.maxlen = 30
        self.minlen = 1
        self.max_need = 6
        self.w_stack = 3.0
        self.w_push = 3.0
        self.w_arith = 4.0
        self.w_env = 0.5
        self.w_mem = 1.5
        self.w_sto = 0.8
        self.w_keccak = 0.3
        self.w_split = 0.0
        self.w_pseudo = 0.2
        self.w_pop = 0.8
        self.terminal = 0.0
        self.deep = False
        self.addr_small = 0.7
        self.__dict__.update(kw)


def gen_grammar_block(rnd, prof=None):
    p = prof or Profile()
    n = rnd.randrange(p.minlen, p.maxlen + 1)
    out = []
    h = 0           # height relative to start (can go negative -> needs inputs)
    need = 0
    max_need = rnd.randrange(0, p.max_need + 1)
    bases = []      # small constants used as addresses so far

    def avail():
        return h + need

    def ensure(k):
        """make sure k operands are available, possibly by assuming more inputs"""
        nonlocal need
        a = avail()
        if a >= k:
            return True
        if need + (k - a) <= max_need:
            need += k - a
            return True
        return False

    def push_addr():
        nonlocal h
        r = rnd.random()
        if r < p.addr_small:
            if bases and rnd.random() < 0.5:
                b = rnd.choice(bases) + rnd.choice([0, 0, 1, 31, 32, -1, 5, 33, 64])
                b = max(0, b)
            else:
                b = rnd.choice(SMALL_ADDRS + [rnd.randrange(0, 200)])
            bases.append(b)
            out.append(("PUSH", hexv(b)))
            h += 1
            return True
        if r < p.addr_small + 0.15 and avail() >= 1:
            # base + offset on an existing stack word
            k = rnd.randrange(1, min(avail(), 16) + 1)
            out.append(("DUP%d" % k, None))
            out.append(("PUSH", hexv(rnd.choice([0, 1, 4, 0x1f, 0x20, 0x21, 0x40, rnd.randrange(1, 70)]))))
            out.append(("ADD", None))
            h += 1
            return True
        if avail() >= 1:
            k = rnd.randrange(1, min(avail(), 16) + 1)
            out.append(("DUP%d" % k, None))
            h += 1
            return True
        return ensure(1)

    kinds = ["stack", "push", "arith", "env", "mem", "sto", "keccak", "split", "pseudo", "pop"]
    weights = [p.w_stack, p.w_push, p.w_arith, p.w_env, p.w_mem, p.w_sto, p.w_keccak, p.w_split, p.w_pseudo,
               p.w_pop]
    guard = 0
    while len(out) < n and guard < 10 * n + 50:
        guard += 1
        kind = rnd.choices(kinds, weights)[0]
        if kind == "push":
            out.append(("PUSH", hexv(rand_const(rnd))))
            h += 1
        elif kind == "stack":
            lim = 16
            if rnd.random() < 0.5:
                a = avail()
                k = rnd.randrange(1, lim + 1) if p.deep else rnd.randrange(1, min(max(a, 1), lim) + 1)
                if ensure(k):
                    out.append(("DUP%d" % k, None))
                    h += 1
            else:
                a = avail()
                k = rnd.randrange(1, lim + 1) if p.deep else rnd.randrange(1, min(max(a - 1, 1), lim) + 1)
                if ensure(k + 1):
                    out.append(("SWAP%d" % k, None))
        elif kind == "arith":
            r = rnd.random()
            if r < 0.18:
                if ensure(1):
                    out.append((rnd.choice(UN), None))
            elif r < 0.95:
                if rnd.random() < 0.3:
                    out.append(("PUSH", hexv(rand_const(rnd))))
                    h += 1
                if ensure(2):
                    out.append((rnd.choice(BIN), None))
                    h -= 1
            else:
                if ensure(3):
                    out.append((rnd.choice(TER), None))
                    h -= 2
        elif kind == "env":
            if rnd.random() < 0.75:
                out.append((rnd.choice(ENV0), None))
                h += 1
            elif ensure(1):
                out.append((rnd.choice(ENV1), None))
        elif kind == "mem":
            r = rnd.random()
            if r < 0.4:
                if push_addr():
                    out.append(("MLOAD", None))
            elif r < 0.85:
                if ensure(1) and push_addr():
                    out.append(("MSTORE", None))
                    h -= 2
            else:
                if ensure(1) and push_addr():
                    out.append(("MSTORE8", None))
                    h -= 2
        elif kind == "sto":
            if rnd.random() < 0.5:
                if push_addr():
                    out.append(("SLOAD", None))
            elif ensure(1) and push_addr():
                out.append(("SSTORE", None))
                h -= 2
        elif kind == "keccak":
            out.append(("PUSH", hexv(rnd.choice([0, 1, 0x20, 0x40, 0x21, 0x3f, 64, 5]))))
            h += 1
            if push_addr():
                out.append(("KECCAK256", None))
                h -= 1
        elif kind == "pseudo":
            out.append(pseudo_item(rnd))
            h += 1
        elif kind == "pop":
            if ensure(1):
                out.append(("POP", None))
                h -= 1
        elif kind == "split":
            name = rnd.choice(SPLITS)
            pops, pushes = evm.ARITY[name]
            # mostly small constants for the (memory range) arguments so that states are informative
            m = pops if rnd.random() < 0.6 else rnd.randrange(0, pops + 1)
            for _ in range(m):
                out.append(("PUSH", hexv(rnd.choice([0, 1, 4, 0x20, 0x40, 0x24, 0x60, 7]))))
                h += 1
            while not ensure(pops):
                out.append(("PUSH", hexv(rnd.choice([0, 1, 4, 0x20, 0x40]))))
                h += 1
            out.append((name, str(rnd.randrange(100, 2000)) if name == "ASSIGNIMMUTABLE" else None))
            h += pushes - pops
    if rnd.random() < p.terminal:
        t = rnd.choice(["JUMP", "JUMPI", "STOP", "RETURN", "REVERT", "INVALID", "JUMP", "JUMPI"])
        if t == "JUMP":
            out.append(("PUSH [tag]", str(rnd.randrange(1, 40))))
            out.append(("JUMP", None))
        elif t == "JUMPI":
            if h + need >= 1 or need < max_need + 1:
                out.append(("PUSH [tag]", str(rnd.randrange(1, 40))))
                out.append(("JUMPI", None))
        elif t in ("RETURN", "REVERT"):
            out.append(("PUSH", hexv(rnd.choice([0, 0x20, 0x40, 4]))))
            out.append(("PUSH", hexv(rnd.choice(SMALL_ADDRS))))
            out.append((t, None))
        else:
            out.append((t, None))
    if not out:
        out = [("PUSH", "1")]
    return out


MEM_PROFILE = dict(w_mem=5.0, w_sto=2.5, w_keccak=1.2, w_arith=2.0, w_push=2.0, w_stack=2.5, maxlen=28, w_pseudo=0.0)
SPLIT_PROFILE = dict(w_split=1.0, w_mem=2.5, w_sto=1.5, maxlen=40, terminal=0.5)


def gen_symm_block(rnd):
    """Several interchangeable items of the same kind: k loads / hashes / environment reads whose results are kept,
    two of them consumed by the same store or operation, unordered stores to different constant addresses.  Wherever
    the optimizer iterates over a set or dictionary of such items, the result may depend on the iteration order
    (hash seed) or on what was processed before."""
    n = rnd.randrange(2, 5)
    ld = rnd.choice(["MLOAD", "MLOAD", "SLOAD", "KECCAK"])
    st = {"MLOAD": rnd.choice(["MSTORE", "MSTORE", "MSTORE8"]), "SLOAD": "SSTORE", "KECCAK": "MSTORE"}[ld]
    out = []
    if rnd.random() < 0.7:
        out += rnd.choice([[("PUSH", "1"), ("POP", None)], [("SWAP1", None), ("SWAP1", None)], [("DUP1", None), ("POP", None)]])

    def load():
        if ld == "KECCAK":
            return [("PUSH", "20"), ("SWAP1", None), ("KECCAK256", None)]
        return [(ld, None)]
    h = n
    mode = rnd.random()
    for i in range(n):
        if mode < 0.55:                       # in place: every input is replaced by its load
            if i == 0:
                out += load()
            else:
                out += [("SWAP%d" % i, None)] + load() + ([("SWAP%d" % i, None)] if rnd.random() < 0.4 else [])
        elif mode < 0.8:                      # loads of copies: inputs stay below
            out += [("DUP%d" % n, None)] + load()
            h += 1
        else:                                 # loads from constant addresses
            out += [("PUSH", hexv(rnd.choice(SMALL_ADDRS)))] + load()
            h += 1
    top = min(h, 15)
    for _ in range(rnd.choice([1, 1, 2])):
        i, j = rnd.randrange(1, top + 1), rnd.randrange(1, top + 1)
        r = rnd.random()
        if r < 0.6:
            out += [("DUP%d" % i, None), ("DUP%d" % j, None), (st, None)]
        elif r < 0.8:
            out += [("DUP%d" % i, None), ("PUSH", hexv(rnd.choice(SMALL_ADDRS))), (st, None),
                    ("DUP%d" % j, None), ("PUSH", hexv(rnd.choice(SMALL_ADDRS))), (st, None)]
        else:
            out += [("DUP%d" % i, None), ("DUP%d" % j, None), (rnd.choice(["ADD", "SUB", "AND", "LT"]), None)]
            h += 1
            top = min(h, 15)
    if rnd.random() < 0.3 and h >= 2:
        out.append(("SWAP%d" % rnd.randrange(1, min(h, 16)), None))
    return out


def gen_overlap_block(rnd):
    """3-6 memory (or storage) accesses at two constant addresses x and x+d with d at the boundaries of the 32-byte
    word (1, 30..33, 63, 64, and their negatives), mixing MSTORE / MSTORE8 / MLOAD / KECCAK256 with lengths around the
    distance; load and hash results stay on the stack.  Every off-by-one in an overlap test shows on these."""
    out = []
    nin = rnd.choice([1, 2, 2, 3])
    if rnd.random() < 0.8:
        x = rnd.choice([0, 0x20, 0x40, 0x60, 0x80])
        d = rnd.choice([1, 31, 31, 31, 32, 33, 30, 63, 64, 0, -1, -31, -31, -32, -33])
        y = max(0, x + d)
        extra = 0
        sym = rnd.random() < 0.25       # one of the accesses uses an address from the stack (may alias anything)
        for _ in range(rnd.randrange(3, 7)):
            a = rnd.choice([x, y, x, y, x + 1])
            k = rnd.random()
            if sym and rnd.random() < 0.35:
                d_ = "DUP%d" % (extra + 1 + rnd.randrange(nin))
                if k < 0.5:
                    out += [(d_, None), ("MLOAD", None)]
                    extra += 1
                    if rnd.random() < 0.4:
                        out += [("DUP%d" % (int(d_[3:]) + 1), None), ("MSTORE", None)]
                        extra -= 1
                else:
                    out += [("DUP%d" % (extra + 1 + rnd.randrange(nin)), None), ("DUP%d" % (int(d_[3:]) + 1), None), ("MSTORE", None)]
                if extra + nin >= 13:
                    break
                continue
            val = [("DUP%d" % (extra + 1 + rnd.randrange(nin)), None)] if rnd.random() < 0.7 else [("PUSH", hexv(rand_const(rnd)))]
            if k < 0.3:
                out += val + [("PUSH", hexv(a)), ("MSTORE", None)]
            elif k < 0.55:
                out += val + [("PUSH", hexv(a)), ("MSTORE8", None)]
            elif k < 0.85:
                out += [("PUSH", hexv(a)), ("MLOAD", None)]
                extra += 1
                kk = rnd.random()
                if kk < 0.12:
                    # the loaded value is written back where it came from: the store is a no-op and the load dies with it
                    out += [("PUSH", hexv(a)), ("MSTORE", None)]
                    extra -= 1
                elif kk < 0.3:
                    # the loaded value only feeds a term that a rule folds away: the load becomes dead after the rules
                    out += rnd.choice([[("PUSH", "0"), ("MUL", None)], [("DUP1", None), ("XOR", None)], [("PUSH", "0"), ("AND", None)],
                                       [("DUP1", None), ("SUB", None)], [("POP", None)]])
                    if out[-1][0] == "POP":
                        extra -= 1
            else:
                n = rnd.choice([1, 31, 32, 33, 64, abs(d) or 32, abs(d) + 1])
                out += [("PUSH", hexv(n)), ("PUSH", hexv(a)), ("KECCAK256", None)]
                extra += 1
            if extra + nin >= 14:
                break
    else:
        k0 = rnd.choice([0, 1, 0x20])
        keys = [k0, k0 + 1, k0]
        extra = 0
        for _ in range(rnd.randrange(3, 6)):
            key = [("PUSH", hexv(rnd.choice(keys)))] if rnd.random() < 0.7 else [("DUP%d" % (extra + 1 + rnd.randrange(nin)), None)]
            if rnd.random() < 0.55:
                val = [("DUP%d" % (extra + 1 + rnd.randrange(nin)), None)] if rnd.random() < 0.7 else [("PUSH", hexv(rnd.choice([0, 1, 2])))]
                out += val + ([("DUP%d" % (int(key[0][0][3:]) + 1), None)] if key[0][0].startswith("DUP") else key) + [("SSTORE", None)]
            else:
                out += key + [("SLOAD", None)]
                extra += 1
    return out


def gen_identity_block(rnd):
    """Blocks (or sub-blocks between split instructions) whose net effect is the identity, directly or after rules:
    X+0, X*1, NOT NOT X, X|0, X^0, X&2^256-1, X-0, X/1, SWAPk SWAPk, DUPk POP, PUSH c POP, X&X, X|X.  The optimizer
    turns them into the empty sequence: the paths for 'nothing left to emit' are otherwise never taken."""
    nin = rnd.choice([1, 2, 3])
    frags = [[("PUSH", "0"), ("ADD", None)], [("PUSH", "1"), ("MUL", None)], [("NOT", None), ("NOT", None)],
             [("PUSH", "0"), ("OR", None)], [("PUSH", "0"), ("XOR", None)], [("PUSH", hexv(MASK)), ("AND", None)],
             [("PUSH", "0"), ("SWAP1", None), ("SUB", None)], [("PUSH", "1"), ("SWAP1", None), ("DIV", None)],
             [("DUP1", None), ("AND", None)], [("DUP1", None), ("OR", None)], [("PUSH", hexv(rand_const(rnd))), ("POP", None)],
             [("PUSH", "0"), ("SWAP1", None), ("SHR", None)] if False else [("PUSH", "0"), ("SHR", None)],
             [("PUSH", "0"), ("SHL", None)]]
    out = []

    def piece():
        r = rnd.random()
        if r < 0.6:
            return list(rnd.choice(frags))
        if r < 0.8 and nin >= 2:
            k = rnd.randrange(1, nin)
            return [("SWAP%d" % k, None), ("SWAP%d" % k, None)]
        k = rnd.randrange(1, nin + 1)
        return [("DUP%d" % k, None), ("POP", None)]
    for _ in range(rnd.randrange(1, 4)):
        out += piece()
    r = rnd.random()
    if r < 0.35:
        # an identity sub-block between split instructions / after a real computation
        out = [("PUSH", "3"), ("DUP2", None), ("ADD", None), ("PUSH", hexv(rnd.choice(SMALL_ADDRS))), ("MSTORE", None)] + out
    elif r < 0.5:
        out = out + [("PUSH", "20"), ("PUSH", "0"), ("LOG0", None)] + piece()
    elif r < 0.6:
        out = out + [("PUSH", "1"), ("PUSH", "2"), ("ADD", None)]
    return out


def gen_wrap_block(rnd):
    """Constant expressions whose exact integer value leaves the 256-bit range (products, sums, shifts, powers,
    negative differences, complements), left on the stack, stored, or combined only by operations that do not
    reduce again: whatever constant the optimizer emits for them must be the wrapped one and a valid PUSH operand."""
    big = [MASK, MASK - 1, 1 << 255, (1 << 255) + 1, 1 << 128, (1 << 128) + 1, (1 << 200) - 1, 1 << 254]
    small = [2, 3, 4, 5, 0x10, 0x100, 0xff]
    out = []
    h = 0
    for _ in range(rnd.randrange(1, 4)):
        r = rnd.random()
        a, b = rnd.choice(big), rnd.choice(big + small)
        if r < 0.3:
            code = [("PUSH", hexv(a)), ("PUSH", hexv(b)), ("MUL", None)]
        elif r < 0.5:
            code = [("PUSH", hexv(a)), ("PUSH", hexv(b)), ("ADD", None)]
        elif r < 0.6:
            code = [("PUSH", hexv(rnd.choice(small))), ("PUSH", hexv(rnd.choice([0, 1]))), ("SUB", None)]
        elif r < 0.72:
            code = [("PUSH", hexv(a)), ("PUSH", hexv(rnd.choice([1, 2, 8, 0xff, 0x100]))), ("SHL", None)]
        elif r < 0.82:
            code = [("PUSH", hexv(rnd.choice([0x100, 0x101, 0x80]))), ("PUSH", hexv(rnd.choice([2, 3, 0x10]))), ("EXP", None)]
        elif r < 0.9:
            code = [("PUSH", hexv(rnd.choice([0, 1, 0xff, a]))), ("NOT", None)]
        else:
            code = [("PUSH", hexv(a)), ("PUSH", hexv(b)), ("MUL", None), ("PUSH", hexv(rnd.choice(small))), ("MUL", None)]
        out += code
        h += 1
        k = rnd.random()
        if k < 0.25:
            out += [("PUSH", hexv(rnd.choice(SMALL_ADDRS))), (rnd.choice(["MSTORE", "SSTORE"]), None)]
            h -= 1
        elif k < 0.45 and h >= 2:
            out.append((rnd.choice(["AND", "OR", "XOR", "DIV"]), None))
            h -= 1
        elif k < 0.55:
            out += [("DUP%d" % (h + 1), None), (rnd.choice(["AND", "OR", "XOR"]), None)]
    if rnd.random() < 0.5:
        out += [("PUSH", "0"), ("POP", None)]       # slack, so that the rewritten block is accepted
    return out


def gen_tiny_block(rnd):
    """two to four memory/storage accesses whose operands come straight from the initial stack, with at most a little
    DUP/SWAP/POP glue: the specifications where every bound is tight and the dependency is the only constraint
    (MSTORE MSTORE, SSTORE SLOAD, CALLVALUE SWAP1 MSTORE MSTORE ...)"""
    out = []
    h = 0                       # values produced so far (loads / hashes / pushes) on top of the inputs
    for i in range(rnd.randrange(2, 5)):
        r = rnd.random()
        if r < 0.2 and i > 0:
            out.append((rnd.choice(["SWAP1", "SWAP2", "DUP1", "DUP2", "CALLVALUE", "SWAP1"]), None))
            if out[-1][0] in ("DUP1", "DUP2", "CALLVALUE"):
                h += 1
        k = rnd.random()
        if k < 0.35:
            out.append((rnd.choice(["MSTORE", "MSTORE", "MSTORE8"]), None))
            h -= 2
        elif k < 0.55:
            out.append(("SSTORE", None))
            h -= 2
        elif k < 0.75:
            out.append(("MLOAD", None))
        elif k < 0.9:
            out.append(("SLOAD", None))
        else:
            out.append(("KECCAK256", None))
            h -= 1
    if rnd.random() < 0.3:
        out = [("SWAP1", None), ("SWAP1", None)] + out
    if rnd.random() < 0.3:
        out.append(("POP", None))
    return out


def gen_tradeoff_block(rnd):
    """Fragments with alternatives that trade one cost for another (gas / bytes / instruction count): a value that
    can be duplicated or produced again (2-gas environment reads, zero pushes, one-byte and wide constants), a
    constant that can be pushed or computed, redundant shuffling.  These are the blocks on which the accept/reject
    decision has ties in the selected criterion and has to look at the others."""
    out = []
    h = 0
    n = rnd.randrange(2, 5)
    for _ in range(n):
        r = rnd.random()
        if r < 0.3:
            x = [(rnd.choice(["ADDRESS", "CALLVALUE", "CALLER", "ORIGIN", "CALLDATASIZE", "CODESIZE", "GASPRICE",
                               "RETURNDATASIZE", "CHAINID", "SELFBALANCE", "SELFBALANCE", "BASEFEE", "COINBASE", "TIMESTAMP",
                               "NUMBER", "GASLIMIT", "PREVRANDAO"]), None)]
        elif r < 0.55:
            x = [("PUSH", hexv(rnd.choice([0, 0, 1, 0x20, 0x40, 0xff])))]
        elif r < 0.75:
            x = [("PUSH", hexv(rnd.choice([0x100, 0xffff, (1 << 32) - 1, (1 << 160) - 1, (1 << 255), MASK])))]
        else:
            x = [("PUSH", hexv(rnd.choice([1, 2, 3]))), ("PUSH", hexv(rnd.choice([1, 2, 0x1f]))), (rnd.choice(["ADD", "MUL", "SHL"]), None)]
        k = rnd.random()
        if k < 0.6:
            out += x + [("DUP1", None)]
        elif k < 0.8:
            out += x + x
        else:
            out += x + [("DUP1", None), ("DUP1", None)]
            h += 1
        h += 2
    # consumers: stores / operations over the produced values, some values left on the stack
    for _ in range(rnd.randrange(0, 3)):
        if h >= 2:
            out.append((rnd.choice(["MSTORE", "MSTORE8", "SSTORE", "ADD", "AND", "SUB", "POP"]), None))
            h -= {"ADD": 1, "AND": 1, "SUB": 1, "POP": 1}.get(out[-1][0], 2)
    if rnd.random() < 0.3 and h >= 2:
        out.append(("SWAP%d" % rnd.randrange(1, min(h, 16)), None))
    return out


def gen_block(rnd, kind=None):
    kind = kind or rnd.choices(["rule", "grammar", "mem", "split", "deep", "dupterms", "symm", "overlap", "identity", "wrap"],
                               [4, 3, 3, 1.5, 0.7, 1.0, 0.8, 1.2, 0.6, 0.6])[0]
    if kind == "rule":
        return gen_rule_block(rnd), kind
    if kind == "grammar":
        return gen_grammar_block(rnd, Profile()), kind
    if kind == "mem":
        return gen_grammar_block(rnd, Profile(**MEM_PROFILE)), kind
    if kind == "split":
        return gen_grammar_block(rnd, Profile(**SPLIT_PROFILE)), kind
    if kind == "short":
        if rnd.random() < 0.5:
            return gen_grammar_block(rnd, Profile(minlen=1, maxlen=7, max_need=3, w_mem=0.8, w_sto=0.5, w_pseudo=0.1)), kind
        t = _wrap(rnd, _P(rnd, 2), 2)
        code = []
        compile_tree(t, 0, code, 2)
        if rnd.random() < 0.4:
            code.append((rnd.choice(["DUP1", "SWAP1", "POP", "DUP2"]), None))
        return code[:10] or [("PUSH", "1")], kind
    if kind == "zero":
        # zero pushes: literal, folded (X-X, AND(X,0), XOR(X,X)) and as rule results
        nin = rnd.choice([1, 2, 3])
        out = []
        extra = 0
        for _ in range(rnd.randrange(1, 4)):
            X = ("in", rnd.randrange(nin))
            t = rnd.choice([("c", 0), ("op", "SUB", [X, X]), ("op", "AND", [X, ("c", 0)]), ("op", "XOR", [X, X]),
                            ("op", "MUL", [("c", 0), X]), ("op", "ISZERO", [("c", 1)]), ("op", "ADD", [X, ("c", 0)]),
                            ("op", "GT", [("c", 0), X]), ("op", "SUB", [("c", 5), ("c", 5)]), ("c", rnd.randrange(0, 3))])
            t = _wrap(rnd, t, nin)
            code = []
            if compile_tree(t, extra, code, nin):
                out.extend(code)
                extra += 1
                if rnd.random() < 0.4:
                    out.append(("PUSH", hexv(rnd.choice(SMALL_ADDRS))))
                    out.append((rnd.choice(["MSTORE", "SSTORE"]), None))
                    extra -= 1
        return out or [("PUSH", "0")], kind
    if kind == "symm":
        return gen_symm_block(rnd), kind
    if kind == "tradeoff":
        return gen_tradeoff_block(rnd), kind
    if kind == "overlap":
        return gen_overlap_block(rnd), kind
    if kind == "identity":
        return gen_identity_block(rnd), kind
    if kind == "wrap":
        return gen_wrap_block(rnd), kind
    if kind == "tiny":
        return gen_tiny_block(rnd), kind
    if kind == "dupterms":
        # the same term computed twice (operands in the other order for commutative operations, repeated loads /
        # hashes / environment reads), then combined or stored: exercises the unification of duplicated instructions
        nin = rnd.choice([2, 2, 3])
        a, b = ("in", 0), ("in", rnd.randrange(1, nin))
        op = rnd.choice(["ADD", "MUL", "AND", "OR", "XOR", "EQ", "SUB", "LT"])
        t1 = ("op", op, [a, b])
        t2 = ("op", op, [b, a]) if rnd.random() < 0.7 else ("op", op, [a, b])
        r = rnd.random()
        if r < 0.25:
            t1 = ("op", rnd.choice(["CALLDATALOAD", "BALANCE"]), [a])
            t2 = t1
        elif r < 0.4:
            t1 = ("env", rnd.choice(ENV0))
            t2 = t1
        elif r < 0.52:
            # the same operation over the same load / hash computed twice: the two results only become one term after
            # the loads have been unified
            addr = ("c", rnd.choice(SMALL_ADDRS)) if rnd.random() < 0.6 else a
            l = ("op", rnd.choice(["MLOAD", "MLOAD", "SLOAD"]), [addr])
            if rnd.random() < 0.6:
                t1 = ("op", rnd.choice(UN + ["BALANCE", "CALLDATALOAD", "EXTCODESIZE"]), [l])
            else:
                t1 = ("op", op, [l, ("c", rnd.choice([1, 2, 0x20]))] if rnd.random() < 0.5 else [b, l])
            t2 = t1
        elif r < 0.75:
            # two *different* terms that a simplification rule makes equal: one operand goes through an identity
            # (ADD(a,0), MUL(a,1), AND(a,a), SUB(a,0), NOT(NOT(a)) ...), so the duplicate only appears after the rule
            def ident(x):
                k = rnd.randrange(8)
                if k == 0:
                    return ("op", "ADD", [x, ("c", 0)] if rnd.random() < 0.5 else [("c", 0), x])
                if k == 1:
                    return ("op", "MUL", [x, ("c", 1)] if rnd.random() < 0.5 else [("c", 1), x])
                if k == 2:
                    return ("op", rnd.choice(["AND", "OR"]), [x, x])
                if k == 3:
                    return ("op", "SUB", [x, ("c", 0)])
                if k == 4:
                    return ("op", rnd.choice(["OR", "XOR"]), [x, ("c", 0)])
                if k == 5:
                    return ("op", "DIV", [x, ("c", 1)])
                if k == 6:
                    return ("op", "NOT", [("op", "NOT", [x])])
                return ("op", "AND", [x, ("c", MASK)])
            t2 = ("op", op, [ident(a), b]) if rnd.random() < 0.5 else ("op", op, [a, ident(b)])
            if rnd.random() < 0.3:
                t1, t2 = t2, t1
        out = []
        compile_tree(t1, 0, out, nin)
        compile_tree(t2, 1, out, nin)
        extra = 2
        for _ in range(rnd.randrange(1, 3)):
            k = rnd.random()
            if k < 0.15 and extra >= 1:
                # the (possibly replaced) value used for both operands of one instruction
                out += [("DUP1", None), ("DUP1", None), (rnd.choice(["DIV", "SUB", "ADD", "LT", "BYTE"]), None)]
                extra += 1
            elif k < 0.4 and extra >= 2:
                out.append((rnd.choice(["ADD", "MUL", "XOR", "SUB"]), None))
                extra -= 1
            elif k < 0.8 and extra >= 1:
                if rnd.random() < 0.5:
                    out += [("DUP%d" % (extra + 1 + rnd.randrange(nin)), None)]
                else:
                    out += [("PUSH", hexv(rnd.choice(SMALL_ADDRS)))]
                out.append((rnd.choice(["MSTORE", "SSTORE"]), None))
                extra -= 1
            else:
                out.append(("SWAP%d" % rnd.randrange(1, extra + nin), None))
        return out, kind
    if kind == "hostile":
        return gen_hostile_block(rnd), kind
    if kind == "long":
        return gen_grammar_block(rnd, Profile(minlen=15, maxlen=60, w_mem=3.0, w_sto=2.0, max_need=8)), kind
    if kind == "splitlong":
        return gen_grammar_block(rnd, Profile(minlen=15, maxlen=60, w_split=0.8, w_mem=2.5, w_sto=1.5, terminal=0.5,
                                              max_need=8)), kind
    if kind == "deep":
        return gen_grammar_block(rnd, Profile(deep=True, max_need=20, maxlen=40, w_stack=6.0)), kind
    raise ValueError(kind)


# ------------------------------------------------------------------ state sampler
ALIAS = [0, 1, 0x1f, 0x20, 0x21, 0x3f, 0x40, 0x60]


def block_constants(block):
    cs = []
    for n, v in block:
        if n == "PUSH":
            try:
                cs.append(int(v, 16))
            except Exception:
                pass
    return cs


def sample_states(rnd, block, k, depth=None):
    """K states from all classes of DESIGN 1.2 (always all classes)."""
    if depth is None:
        depth, _ = evm.stack_effect(block)
    consts = block_constants(block)
    neigh = []
    for c in consts:
        neigh.extend([c, (c + 1) & MASK, (c - 1) & MASK])
    states = []

    def S(stack, **kw):
        states.append(evm.State(stack, seed=rnd.getrandbits(32), **kw))

    S([0] * depth, zero_mem=True, zero_sto=True)
    S([MASK] * depth)
    S([0] * depth)
    S([1] * depth)
    e = rnd.choice(BOUNDARY + [5, 0x20])
    S([e] * depth)
    S(list(range(1, depth + 1)))
    S([rnd.choice(BOUNDARY) for _ in range(depth)])
    S([rnd.choice(BOUNDARY) for _ in range(depth)], zero_mem=True)
    S([rnd.choice(ALIAS) for _ in range(depth)])
    x = rnd.choice([0, 0x20, 0x40, 0x80, rnd.randrange(0, 1000)])
    S([(x + rnd.choice([0, 1, 31, 32, -1, 0, 33])) % (1 << 256) for _ in range(depth)])
    S([rnd.getrandbits(256) for _ in range(depth)])
    S([rnd.choice([SIGN, SIGN - 1, SIGN + 1, MASK, MASK - 1, 0, 1]) for _ in range(depth)])
    if neigh:
        S([rnd.choice(neigh) for _ in range(depth)])
    # harvested operands: run the block once and feed the words it actually used back as inputs
    harvested = []
    try:
        o = evm.observe(block, states[rnd.randrange(len(states))])
        harvested = list(o.used)
        o2 = evm.observe(block, states[5])
        harvested += list(o2.used)
    except Exception:
        pass
    hv = []
    for a in harvested[:40]:
        for d in (0, 1, -1, 31, -31, 32, -32):
            hv.append((a + d) & MASK)
    while len(states) < k:
        r = rnd.random()
        if hv and r < 0.3:
            S([rnd.choice(hv) if rnd.random() < 0.6 else rnd.choice(ALIAS) for _ in range(depth)])
        elif r < 0.5:
            S([rnd.choice(ALIAS + [rnd.randrange(0, 128)]) for _ in range(depth)])
        elif r < 0.65:
            S([rnd.choice(BOUNDARY + neigh) for _ in range(depth)])
        elif r < 0.8:
            S([rnd.getrandbits(rnd.choice([1, 8, 16, 160, 255, 256])) for _ in range(depth)])
        else:
            y = rnd.randrange(0, 4096)
            S([(y + rnd.choice([0, 1, 31, 32, 64, -1])) & MASK for _ in range(depth)], zero_mem=rnd.random() < 0.3)
    return states[:max(k, 13)]


# ------------------------------------------------------------------ assembly items / documents
def to_items(block, begin=0):
    """[(name,value)] -> solc asm-json item dicts"""
    items = []
    pos = begin
    for n, v in block:
        d = {"begin": pos, "end": pos + 3, "name": n, "source": 0}
        if v is not None:
            d["value"] = v
        if n == "JUMP":
            pass
        items.append(d)
        pos += 3
    return items


# ------------------------------------------------------------------ hand-built specifications (SFS)
OPC = {"ADD": "01", "MUL": "02", "SUB": "03", "DIV": "04", "LT": "10", "GT": "11", "EQ": "14", "ISZERO": "15",
       "AND": "16", "OR": "17", "XOR": "18", "NOT": "19", "SHL": "1b", "SHR": "1c", "EXP": "0a", "ADDMOD": "08",
       "MLOAD": "51", "SLOAD": "54", "MSTORE": "52", "SSTORE": "55", "MSTORE8": "53", "KECCAK256": "20",
       "CALLER": "33", "CALLVALUE": "34", "TIMESTAMP": "42", "CALLDATALOAD": "35", "BALANCE": "31", "PUSH": "60",
       "PUSH0": "5f", "ADDRESS": "30"}
SFS_GAS = {"MUL": 5, "DIV": 5, "EXP": 60, "ADDMOD": 8, "SLOAD": 2100, "SSTORE": 5000, "KECCAK256": 30,
           "CALLER": 2, "CALLVALUE": 2, "TIMESTAMP": 2, "BALANCE": 2600, "PUSH0": 2, "ADDRESS": 2}
SFS_COMM = {"ADD", "MUL", "EQ", "AND", "OR", "XOR"}


def gen_sfs(rnd, n_src=None, n_instr=None, wide=False):
    """A well-formed hand-built specification in the front-end's JSON format (default push mode:
    constants are PUSH instructions).  Returns the dictionary."""
    n_src = rnd.randrange(0, 7 if not wide else 19) if n_src is None else n_src
    n_instr = rnd.randrange(1, 13) if n_instr is None else n_instr
    src = ["s(%d)" % i for i in range(n_src)]
    nxt = [n_src]
    counters = {}
    instrs = []
    avail = list(src)
    creation = []       # state ops in creation order: (id, kind)

    def fresh():
        v = "s(%d)" % nxt[0]
        nxt[0] += 1
        return v

    def mk(dis, inp, out=True, value=None):
        k = counters.get(dis, 0)
        counters[dis] = k + 1
        ins = {"id": "%s_%d" % (dis, k), "opcode": OPC.get(dis, "00"), "disasm": dis, "inpt_sk": list(inp),
               "outpt_sk": [fresh()] if out else [], "push": dis.startswith("PUSH"), "gas": SFS_GAS.get(dis, 3),
               "commutative": dis in SFS_COMM, "storage": not out, "size": 1}
        if value is not None:
            ins["value"] = [value]
            ins["size"] = 1 + max(1, (value.bit_length() + 7) // 8)
        if dis in ("CALLER", "CALLVALUE", "TIMESTAMP", "ADDRESS"):
            ins["id"] = dis
        instrs.append(ins)
        if out:
            avail.append(ins["outpt_sk"][0])
        return ins

    def pick():
        if not avail or rnd.random() < 0.25:
            v = rnd.choice([0, 1, 2, 0x20, 0x40, 0x60, 0x80, 0xff, rnd.randrange(0, 300), rnd.getrandbits(64)])
            if v == 0 and rnd.random() < 0.5:
                return mk("PUSH0", [])["outpt_sk"][0]
            return mk("PUSH", [], value=v)["outpt_sk"][0]
        if rnd.random() < 0.4:
            return rnd.choice(avail[-4:])
        return rnd.choice(avail)

    zeroary_done = set()
    for _ in range(n_instr):
        r = rnd.random()
        if r < 0.45:
            op = rnd.choice(["ADD", "MUL", "SUB", "DIV", "LT", "GT", "EQ", "AND", "OR", "XOR", "SHL", "SHR", "EXP"])
            mk(op, [pick(), pick()])
        elif r < 0.55:
            mk(rnd.choice(["ISZERO", "NOT", "CALLDATALOAD", "BALANCE"]), [pick()])
        elif r < 0.6:
            z = rnd.choice(["CALLER", "CALLVALUE", "TIMESTAMP", "ADDRESS"])
            if z not in zeroary_done:
                zeroary_done.add(z)
                mk(z, [])
        elif r < 0.63:
            mk("ADDMOD", [pick(), pick(), pick()])
        elif r < 0.73:
            ins = mk(rnd.choice(["MLOAD", "SLOAD"]), [pick()])
            creation.append(ins)
        elif r < 0.77:
            ins = mk("KECCAK256", [pick(), pick()])
            creation.append(ins)
        else:
            ins = mk(rnd.choice(["MSTORE", "SSTORE", "MSTORE", "SSTORE", "MSTORE8"]), [pick(), pick()], out=False)
            creation.append(ins)
    # target stack
    n_tgt = rnd.randrange(0, 6 if not wide else 20)
    tgt = []
    for _ in range(n_tgt):
        tgt.append(rnd.choice(avail) if avail else None)
    tgt = [t for t in tgt if t is not None]
    if src and rnd.random() < 0.5:
        # keep some of the source stack at the bottom, as real blocks do
        keep = src[rnd.randrange(0, len(src)):]
        tgt = tgt + keep
    # remove instructions whose output is never used (the front-end never emits those), iteratively
    changed = True
    while changed:
        changed = False
        used = set(tgt)
        for ins in instrs:
            used.update(ins["inpt_sk"])
        for ins in list(instrs):
            if ins["outpt_sk"] and ins["outpt_sk"][0] not in used:
                instrs.remove(ins)
                changed = True
    live = {ins["id"] for ins in instrs}
    creation = [c for c in creation if c["id"] in live]
    # dependencies: acyclic by construction (creation order), same location only
    mem, sto = [], []
    for i, a in enumerate(creation):
        for b in creation[i + 1:]:
            ka = "s" if a["disasm"] in ("SLOAD", "SSTORE") else "m"
            kb = "s" if b["disasm"] in ("SLOAD", "SSTORE") else "m"
            if ka != kb:
                continue
            if a["outpt_sk"] and b["outpt_sk"]:
                continue            # two reads are never ordered
            if rnd.random() < 0.45:
                (sto if ka == "s" else mem).append([a["id"], b["id"]])
    vars_ = sorted(set(src) | {ins["outpt_sk"][0] for ins in instrs if ins["outpt_sk"]},
                   key=lambda v: int(v[2:-1]))
    S = {"init_progr_len": 4 * len(instrs) + 2 * len(tgt) + len(src) + 6, "max_progr_len": 200,
         "max_sk_sz": len(vars_) + len(src) + 4, "vars": vars_, "src_ws": src, "tgt_ws": tgt,
         "user_instrs": instrs, "current_cost": 1000, "storage_dependences": sto, "memory_dependences": mem,
         "dependencies": sto + mem, "is_revert": False, "rules_applied": False, "rules": [],
         "original_instrs": "", "min_length_instrs": 0, "min_length_bounds": 0, "min_length": 0}
    return S


# ------------------------------------------------------------------ solc assembly JSON documents
def _code_stream(rnd, nblocks, kinds, tagbase, opt_fields=True, src_max=2):
    items = []
    pos = 0
    tags = list(range(tagbase, tagbase + nblocks + 1))

    def item(name, value=None, jump=None):
        nonlocal pos
        d = {"begin": pos, "end": pos + rnd.randrange(1, 9), "name": name, "source": rnd.randrange(-1, src_max)}
        if value is not None:
            d["value"] = value
        if jump is not None and opt_fields:
            d["jumpType"] = jump
        if opt_fields and rnd.random() < 0.1:
            d["modifierDepth"] = rnd.randrange(1, 3)
        pos += rnd.randrange(0, 12)
        return d
    fall = True
    for i in range(nblocks):
        if i > 0 or rnd.random() < 0.3:
            items.append(item("tag", str(tags[i])))
            items.append(item("JUMPDEST"))
        blk, _ = gen_block(rnd, rnd.choice(kinds))
        blk = [p for p in blk if p[0] not in evm.TERMINAL and p[0] != "PUSH [tag]"]
        for n, v in blk:
            if n == "PUSH [tag]":
                v = str(rnd.choice(tags))
            items.append(item(n, v))
        t = rnd.choice(["JUMP", "JUMPI", "STOP", "RETURN", "REVERT", "INVALID", "fall", "JUMP", "JUMPI", "fall"])
        if t == "JUMP":
            items.append(item("PUSH [tag]", str(rnd.choice(tags))))
            items.append(item("JUMP", None, rnd.choice(["[in]", "[out]", None])))
        elif t == "JUMPI":
            items.append(item("PUSH [tag]", str(rnd.choice(tags))))
            items.append(item("JUMPI"))
        elif t in ("RETURN", "REVERT"):
            items.append(item("PUSH", hexv(rnd.choice([0, 0x20, 0x40]))))
            items.append(item("PUSH", hexv(rnd.choice([0, 0x80]))))
            items.append(item(t))
        elif t != "fall":
            items.append(item(t))
    return items


def gen_document(rnd, n_contracts=None, blocks_per_stream=None, kinds=None, version=None, nested=True):
    """A solc --combined-json asm document with generated blocks spliced between tags and jumps."""
    kinds = kinds or ["rule", "grammar", "mem", "split"]
    n_contracts = n_contracts or rnd.randrange(1, 4)
    version = version or rnd.choice(["0.8.5+commit.a4f2e591.Linux.g++", "0.8.15+commit.e14f2714.Linux.g++",
                                     "0.8.21+commit.d9974bed.Linux.g++"])
    new_style = not version.startswith("0.8.5")
    contracts = {}
    short_names = []
    for c in range(n_contracts):
        # later contracts are often named after an earlier one (Vault / TokenVault / VaultV2 / aVaultb): selecting
        # a contract by name must not confuse a name with its suffix, prefix or infix
        short = "C%d" % c
        if short_names and rnd.random() < 0.6:
            base = rnd.choice(short_names)
            short = rnd.choice(["Token" + base, "Safe" + base, base + "V2", base + "Impl", "a" + base + "b", base.lower()])
            if short in short_names:
                short = "C%d" % c
        short_names.append(short)
        name = "contracts/File%d.sol:%s" % (rnd.randrange(3), short)
        nb = blocks_per_stream or rnd.randrange(1, 6)
        asm = {".code": _code_stream(rnd, nb, kinds, 1, opt_fields=True)}
        data = {}
        run = {".code": _code_stream(rnd, blocks_per_stream or rnd.randrange(1, 7), kinds, 1)}
        if rnd.random() < 0.9:
            run[".auxdata"] = "a2646970667358221220%064x64736f6c6343000805" % rnd.getrandbits(256)
        if nested and rnd.random() < 0.4:
            inner = {"%064X" % rnd.getrandbits(256): "%0128x" % rnd.getrandbits(512)}
            if rnd.random() < 0.5:
                inner["0"] = {".code": _code_stream(rnd, 1, kinds, 1), ".auxdata": "a264%060x" % rnd.getrandbits(240)}
            run[".data"] = inner
        data["0"] = run
        if rnd.random() < 0.3:
            data["%064X" % rnd.getrandbits(256)] = "%064x" % rnd.getrandbits(256)
        if rnd.random() < 0.2:
            data["1"] = {".code": _code_stream(rnd, rnd.randrange(1, 3), kinds, 1),
                         ".auxdata": "a264%060x" % rnd.getrandbits(240)}
        asm[".data"] = data
        if new_style:
            asm["sourceList"] = ["contracts/File0.sol", "contracts/File1.sol", "#utility.yul"][:rnd.randrange(1, 4)]
        contracts[name] = {"asm": asm}
    # contracts without assembly (interfaces, abstract contracts), in both spellings
    for k in range(rnd.randrange(0, 3)):
        contracts["contracts/File%d.sol:I%d" % (rnd.randrange(3), k)] = {} if rnd.random() < 0.6 else {"asm": None}
    names = list(contracts)
    rnd.shuffle(names)
    return {"contracts": {n: contracts[n] for n in names}, "version": version}



# whether gen_hostile_block may produce the DUP-shared term DAG (a known, recorded blow-up of the front-end): switched off
# where one such block would only make a whole multi-block CLI run exceed its budget (monitors/c10.py part b/c)
HOSTILE_DAG = True


def gen_hostile_block(rnd):
    """inputs aimed at termination / exception containment (C10)"""
    r = rnd.random()
    Z = [0, MASK, 1, SIGN, MASK - 1, 256, 255, 257, 1 << 200, (1 << 255) + 1]
    out = []
    if r < 0.3:
        # constant operands 0 / 2^256-1 for division, modulo, shifts and exponentiation
        for _ in range(rnd.randrange(1, 4)):
            op = rnd.choice(["DIV", "SDIV", "MOD", "SMOD", "SHL", "SHR", "SAR", "EXP", "ADDMOD", "MULMOD", "SIGNEXTEND",
                             "BYTE", "MUL", "ADD", "SUB"])
            n = 3 if op in TER else 2
            for _ in range(n):
                if rnd.random() < 0.8:
                    out.append(("PUSH", hexv(rnd.choice(Z + [rand_const(rnd)]))))
                else:
                    out.append(("DUP%d" % rnd.randrange(1, 3), None))
            out.append((op, None))
            if rnd.random() < 0.3:
                out.append((rnd.choice(UN), None))
    elif r < 0.45:
        # NOT NOT, long ISZERO chains
        out.append(("DUP1", None) if rnd.random() < 0.7 else ("PUSH", hexv(rnd.choice(Z))))
        for _ in range(rnd.randrange(2, 13)):
            out.append((rnd.choice(["ISZERO", "ISZERO", "NOT"]), None))
        if rnd.random() < 0.5:
            out += [("DUP1", None), (rnd.choice(["EQ", "AND", "OR", "XOR", "SUB", "GT"]), None)]
    elif r < 0.6:
        # 17-24 live stack values
        n = rnd.randrange(17, 25)
        for i in range(n):
            out.append(("PUSH", hexv(i + 1)) if rnd.random() < 0.6 else (rnd.choice(ENV0), None))
        for _ in range(rnd.randrange(0, 6)):
            out.append((rnd.choice(["DUP16", "SWAP16", "DUP1", "SWAP1", "ADD", "POP", "DUP9"]), None))
    elif r < 0.68:
        # layered dependency DAG: groups of mutually independent stores (distinct constant keys) separated by an
        # access to a symbolic key that depends on all of them -> exponentially many dependency paths
        layers = rnd.randrange(6, 30)
        width = rnd.choice([2, 2, 3])
        key = 0
        sto = rnd.random() < 0.6
        st, ld = ("SSTORE", "SLOAD") if sto else ("MSTORE", "MLOAD")
        for _ in range(layers):
            for _ in range(width):
                out += [("DUP1", None), ("PUSH", hexv(key if sto else key * 0x20)), (st, None)]
                key += 1
            out += [("DUP2", None), (ld, None), ("POP", None)] if rnd.random() < 0.5 else [("DUP2", None), ("DUP1", None), (st, None)]
    elif r < 0.70 and HOSTILE_DAG:
        # a term whose sub-terms are shared through DUP: n doublings give a DAG with 2^n paths (x+x, then (x+x)*(x+x) ...);
        # linear in the block, exponential for any traversal of the term that does not remember what it has visited
        for _ in range(rnd.randrange(8, 26)):
            out += [("DUP1", None), (rnd.choice(["ADD", "ADD", "MUL", "XOR", "AND", "SUB"]), None)]
            if rnd.random() < 0.15:
                out += [("PUSH", hexv(rnd.randrange(1, 9))), ("ADD", None)]
    elif r < 0.8:
        # long chains of dependent memory accesses (transitive dependency edges)
        n = rnd.randrange(12, 40)
        for i in range(n):
            a = rnd.choice([0, 0x20, 0x40, 0x60, 0x80, rnd.randrange(0, 8) * 0x20])
            k = rnd.random()
            if k < 0.45:
                out += [("PUSH", hexv(rnd.randrange(1, 300))), ("PUSH", hexv(a)), ("MSTORE", None)]
            elif k < 0.7:
                out += [("PUSH", hexv(a)), ("MLOAD", None), ("PUSH", hexv(a + 0x20)), ("MSTORE", None)]
            elif k < 0.85:
                out += [("PUSH", hexv(a)), ("SLOAD", None), ("PUSH", hexv(a)), ("SSTORE", None)]
            else:
                out += [("PUSH", hexv(0x40)), ("PUSH", hexv(a)), ("KECCAK256", None), ("PUSH", hexv(a)), ("MSTORE", None)]
    else:
        # pairs of rule patterns chained (malformed rule code paths)
        t1 = _wrap(rnd, _P(rnd, 2), 2)
        t2 = _wrap(rnd, _P(rnd, 2), 2)
        t = ("op", rnd.choice(BIN), [t1, t2])
        compile_tree(t, 0, out, 2)
        if rnd.random() < 0.5:
            out += [("DUP1", None), (rnd.choice(BIN), None)]
    return out or [("PUSH", "0")]



def gen_stmt_block(rnd, nin=None):
    """a block made of stack-neutral statements over memory/storage (for reordering mutants):
    returns (statements, number of stack inputs)"""
    nin = nin or rnd.randrange(1, 5)
    consts = [0, 1, 0x1f, 0x20, 0x21, 0x40, 0x41, 0x60]

    def fresh_addr():
        if rnd.random() < 0.6:
            return [("PUSH", hexv(rnd.choice(consts)))]
        k = rnd.randrange(1, nin + 1)
        if rnd.random() < 0.5:
            return [("DUP%d" % k, None)]
        return [("DUP%d" % k, None), ("PUSH", hexv(rnd.choice([1, 0x1f, 0x20, 0x40]))), ("ADD", None)]
    # a focus address shared by several statements of the block: the same location is loaded more than once with
    # stores to it, or to an overlapping location, in between
    focus = fresh_addr()

    def addr():
        r = rnd.random()
        if r < 0.4:
            return list(focus)
        if r < 0.55:
            if focus[0][0] == "PUSH" and len(focus) == 1:
                return [("PUSH", hexv(int(focus[0][1], 16) + rnd.choice([1, 0x1f, 0x20])))]
            return list(focus) + [("PUSH", hexv(rnd.choice([1, 0x1f, 0x20]))), ("ADD", None)]
        return fresh_addr()

    def with_depth(code, extra):
        # DUPk inside `code` refer to the inputs; shift by the values already pushed by the statement
        out = []
        for n, v in code:
            if n.startswith("DUP"):
                out.append(("DUP%d" % (int(n[3:]) + extra), None))
            else:
                out.append((n, v))
        return out
    stmts = []
    if rnd.random() < 0.3:
        # sandwich: three or more consumers of a load (or hash) of the focus location with one or two stores to that
        # or an overlapping location somewhere in between -- loads written identically that read different states
        mem = rnd.random() < 0.7
        ld = [("MLOAD", None)] if mem else [("SLOAD", None)]
        if mem and rnd.random() < 0.2:
            ld = None
        sinks = [0x21, 0x40, 0x1f, 0x60, 0x80, 0x100]
        rnd.shuffle(sinks)
        for i in range(rnd.randrange(3, 5)):
            if ld is None:
                src = [("PUSH", hexv(0x20))] + with_depth(list(focus), 1) + [("KECCAK256", None)]
            else:
                src = list(focus) + ld
            stmts.append(src + [("PUSH", hexv(sinks[i])), ("SSTORE" if mem else "MSTORE", None)])
        for _ in range(rnd.choice([1, 1, 2])):
            val = [("DUP%d" % rnd.randrange(1, nin + 1), None)] if rnd.random() < 0.6 else [("PUSH", hexv(rnd.randrange(1, 300)))]
            a = list(focus) if rnd.random() < 0.5 else (list(focus) + [("PUSH", hexv(rnd.choice([1, 0x1f]))), ("ADD", None)])
            st = val + with_depth(a, 1) + [(rnd.choice(["MSTORE", "MSTORE8"]) if mem else "SSTORE", None)]
            stmts.insert(rnd.randrange(1, len(stmts)), st)
        return stmts, nin
    if rnd.random() < 0.25:
        # twin stores: the same store statement (same location, same value) twice, with one or two stores to that or
        # an overlapping / possibly equal location in between and around -- identically written instructions whose
        # position among the conflicting stores is all that tells them apart
        mem = rnd.random() < 0.5
        stn = rnd.choice(["MSTORE", "MSTORE8"]) if mem else "SSTORE"
        val = [("DUP%d" % rnd.randrange(1, nin + 1), None)] if rnd.random() < 0.7 else [("PUSH", hexv(rnd.randrange(1, 300)))]
        twin = val + with_depth(list(focus), 1) + [(stn, None)]

        def other():
            r_ = rnd.random()
            if r_ < 0.35:
                src = [("PUSH", hexv(0x20))] + with_depth(list(focus), 1) + [("KECCAK256", None)] if mem else list(focus) + [("SLOAD", None)]
            elif r_ < 0.7:
                src = [("PUSH", hexv(rnd.randrange(1, 300)))]
            else:
                src = [("DUP%d" % rnd.randrange(1, nin + 1), None)]
            a = list(focus) if rnd.random() < 0.6 else rnd.choice([[("PUSH", hexv(rnd.choice(consts)))],
                                                                   list(focus) + [("PUSH", hexv(rnd.choice([1, 0x1f, 0x20]))), ("ADD", None)]])
            return src + with_depth(a, 1) + [(stn if rnd.random() < 0.8 else ("MSTORE" if mem else "SSTORE"), None)]
        stmts = [list(twin)]
        for _ in range(rnd.choice([0, 1])):
            stmts.append(other())
        stmts.append(list(twin))
        for _ in range(rnd.choice([1, 1, 2])):
            stmts.append(other())
        if rnd.random() < 0.4:
            stmts.insert(0, other())
        return stmts, nin
    for _ in range(rnd.randrange(2, 6)):
        r = rnd.random()
        if r < 0.3:
            val = [("DUP%d" % rnd.randrange(1, nin + 1), None)] if rnd.random() < 0.6 else [("PUSH", hexv(rnd.randrange(1, 300)))]
            st = val + with_depth(addr(), 1) + [(rnd.choice(["MSTORE", "MSTORE", "MSTORE8"]), None)]
        elif r < 0.5:
            val = [("DUP%d" % rnd.randrange(1, nin + 1), None)] if rnd.random() < 0.6 else [("PUSH", hexv(rnd.randrange(1, 300)))]
            st = val + with_depth(addr(), 1) + [("SSTORE", None)]
        elif r < 0.7:
            st = addr() + [("MLOAD", None)] + with_depth(addr(), 1) + [(rnd.choice(["MSTORE", "SSTORE"]), None)]
        elif r < 0.85:
            st = addr() + [("SLOAD", None)] + with_depth(addr(), 1) + [(rnd.choice(["MSTORE", "SSTORE"]), None)]
        else:
            st = [("PUSH", hexv(rnd.choice([0x20, 0x40, 0x21])))] + with_depth(addr(), 1) + [("KECCAK256", None)] + \
                with_depth(addr(), 1) + [(rnd.choice(["MSTORE", "SSTORE"]), None)]
        stmts.append(st)
    return stmts, nin
