"""Reference interpreter for one EVM basic block (solc assembly-item vocabulary).

Independent of every repository module.  A block is a list of (name, value)
pairs, name being the assembly item name ("PUSH", "PUSH [tag]", "DUP3", "ADD",
"PUSH0", "PUSHLIB", ...), value the item's operand string or None.

observe(block, state) -> Obs(trace, halt, stack, mem, sto, steps, gas, err)
"""
import hashlib
from . import opsem
from .opsem import M, MASK

MEM_LIMIT = 1 << 20          # accesses with offset+size above this are an exceptional halt
ADDR_MASK = (1 << 160) - 1

# name -> (pops, pushes)
ARITY = {
    "STOP": (0, 0), "ADD": (2, 1), "MUL": (2, 1), "SUB": (2, 1), "DIV": (2, 1), "SDIV": (2, 1),
    "MOD": (2, 1), "SMOD": (2, 1), "ADDMOD": (3, 1), "MULMOD": (3, 1), "EXP": (2, 1),
    "SIGNEXTEND": (2, 1), "LT": (2, 1), "GT": (2, 1), "SLT": (2, 1), "SGT": (2, 1), "EQ": (2, 1),
    "ISZERO": (1, 1), "AND": (2, 1), "OR": (2, 1), "XOR": (2, 1), "NOT": (1, 1), "BYTE": (2, 1),
    "SHL": (2, 1), "SHR": (2, 1), "SAR": (2, 1), "KECCAK256": (2, 1), "SHA3": (2, 1),
    "ADDRESS": (0, 1), "BALANCE": (1, 1), "ORIGIN": (0, 1), "CALLER": (0, 1), "CALLVALUE": (0, 1),
    "CALLDATALOAD": (1, 1), "CALLDATASIZE": (0, 1), "CALLDATACOPY": (3, 0), "CODESIZE": (0, 1),
    "CODECOPY": (3, 0), "GASPRICE": (0, 1), "EXTCODESIZE": (1, 1), "EXTCODECOPY": (4, 0),
    "RETURNDATASIZE": (0, 1), "RETURNDATACOPY": (3, 0), "EXTCODEHASH": (1, 1), "BLOCKHASH": (1, 1),
    "COINBASE": (0, 1), "TIMESTAMP": (0, 1), "NUMBER": (0, 1), "DIFFICULTY": (0, 1),
    "PREVRANDAO": (0, 1), "GASLIMIT": (0, 1), "CHAINID": (0, 1), "SELFBALANCE": (0, 1),
    "BASEFEE": (0, 1), "POP": (1, 0), "MLOAD": (1, 1), "MSTORE": (2, 0), "MSTORE8": (2, 0),
    "SLOAD": (1, 1), "SSTORE": (2, 0), "JUMP": (1, 0), "JUMPI": (2, 0), "PC": (0, 1), "MSIZE": (0, 1),
    "GAS": (0, 1), "JUMPDEST": (0, 0), "tag": (0, 0),
    "LOG0": (2, 0), "LOG1": (3, 0), "LOG2": (4, 0), "LOG3": (5, 0), "LOG4": (6, 0),
    "CREATE": (3, 1), "CALL": (7, 1), "CALLCODE": (7, 1), "RETURN": (2, 0), "DELEGATECALL": (6, 1),
    "CREATE2": (4, 1), "STATICCALL": (6, 1), "REVERT": (2, 0), "INVALID": (0, 0),
    "SELFDESTRUCT": (1, 0), "ASSIGNIMMUTABLE": (2, 0),
    "PUSH": (0, 1), "PUSH0": (0, 1), "PUSH [tag]": (0, 1), "PUSH data": (0, 1), "PUSH [$]": (0, 1),
    "PUSH #[$]": (0, 1), "PUSHLIB": (0, 1), "PUSHIMMUTABLE": (0, 1), "PUSHSIZE": (0, 1),
    "PUSHDEPLOYADDRESS": (0, 1),
}
for _k in range(1, 17):
    ARITY["DUP%d" % _k] = (_k, _k + 1)
    ARITY["SWAP%d" % _k] = (_k + 1, _k + 1)

TERMINAL = {"STOP", "RETURN", "REVERT", "INVALID", "SELFDESTRUCT", "JUMP", "JUMPI"}
ENV0 = {"ADDRESS", "ORIGIN", "CALLER", "CALLVALUE", "CALLDATASIZE", "CODESIZE", "GASPRICE",
        "COINBASE", "TIMESTAMP", "NUMBER", "DIFFICULTY", "PREVRANDAO", "GASLIMIT", "CHAINID",
        "SELFBALANCE", "BASEFEE", "RETURNDATASIZE"}
ENV1 = {"BALANCE", "CALLDATALOAD", "EXTCODESIZE", "EXTCODEHASH", "BLOCKHASH"}
PSEUDO_PUSH = {"PUSH [tag]", "PUSH data", "PUSH [$]", "PUSH #[$]", "PUSHLIB", "PUSHIMMUTABLE",
               "PUSHSIZE", "PUSHDEPLOYADDRESS"}
CALLS = {"CALL": 7, "CALLCODE": 7, "DELEGATECALL": 6, "STATICCALL": 6}


class Underflow(Exception):
    pass


def stack_effect(block):
    """(needed input depth, height delta) by our own table."""
    h, need = 0, 0
    for name, _ in block:
        p, q = ARITY[name]
        if p > h:
            need += p - h
            h = p
        h += q - p
    return need, h - need


def _prf(*parts):
    hsh = hashlib.blake2b(digest_size=32)
    for p in parts:
        if isinstance(p, int):
            hsh.update(p.to_bytes(40, "big", signed=False) if p >= 0 else b"-" + (-p).to_bytes(40, "big"))
        elif isinstance(p, str):
            hsh.update(p.encode())
        else:
            hsh.update(p)
        hsh.update(b"|")
    return hsh.digest()


def prf_word(*parts):
    return int.from_bytes(_prf(*parts), "big")


def pseudo_key(name, value):
    """The number / text a pseudo-push operand denotes in that kind's own format."""
    if value is None:
        return None
    v = str(value)
    try:
        if name == "PUSH [tag]":
            return int(v, 10)
        if name in ("PUSH data", "PUSH [$]", "PUSH #[$]", "PUSHIMMUTABLE"):
            # data / sub-assembly references are hex; immutables are opaque digit strings which the
            # tool reads and writes as hex text, so the hex reading is a faithful key for them too
            return int(v, 16)
        return v
    except ValueError:
        return "raw:" + v


def pseudo_word(name, key):
    """Opaque link-time constant of a pseudo-push: function of (kind, denoted operand)."""
    w = prf_word("pseudo", name, repr(key))
    if name in ("PUSH [tag]",):
        return w & 0xFFFF            # a code offset
    if name in ("PUSHLIB", "PUSHDEPLOYADDRESS"):
        return w & ADDR_MASK
    if name in ("PUSH #[$]", "PUSHSIZE", "PUSH [$]", "PUSH data"):
        return w & 0xFFFFFF
    return w


def pseudo_value(name, value):
    return pseudo_word(name, pseudo_key(name, value))


class State:
    """Concrete machine state sigma.  stack is top-first."""
    __slots__ = ("stack", "seed", "zero_mem", "zero_sto")

    def __init__(self, stack, seed=0, zero_mem=False, zero_sto=False):
        self.stack = [x & MASK for x in stack]
        self.seed = seed
        self.zero_mem = zero_mem
        self.zero_sto = zero_sto

    def to_json(self):
        return {"stack": [hex(x) for x in self.stack], "seed": self.seed,
                "zero_mem": self.zero_mem, "zero_sto": self.zero_sto}

    @staticmethod
    def from_json(d):
        return State([int(x, 16) for x in d["stack"]], d["seed"], d.get("zero_mem", False), d.get("zero_sto", False))


class Obs:
    __slots__ = ("trace", "halt", "stack", "mem", "sto", "steps", "gas", "err", "used", "warm_log")

    def key(self):
        """What an outside observer can tell (see DESIGN 1.1)."""
        if self.halt in ("oog", "underflow", "badop"):
            return ("exceptional",)
        if self.halt in ("REVERT", "INVALID"):
            return (tuple(self.trace), self.halt)
        if self.halt in ("STOP", "RETURN", "SELFDESTRUCT"):
            return (tuple(self.trace), self.halt, tuple(sorted(self.sto.items())))
        return (tuple(self.trace), self.halt, tuple(self.stack), tuple(sorted(self.mem.items())),
                tuple(sorted(self.sto.items())))


class Machine:
    def __init__(self, state, meter=False):
        self.st = list(state.stack)
        self.seed = state.seed
        self.zero_mem = state.zero_mem
        self.zero_sto = state.zero_sto
        self.memw = {}           # addr -> byte
        self.chunks = {}
        self.stow = {}           # key -> word (writes of the current epoch)
        self.sto_final = {}      # all writes (key,epoch)->word for final comparison
        self.epoch = 0
        self.trace = []
        self.gas_n = 0
        self.used = []           # harvested operands (addresses, keys, divisors, ...)
        # meter: False | True | "flat_exp" | {"flat_exp": bool, "force_warm": [bool, ...]}
        self.meter = bool(meter)
        self.flat_exp = meter == "flat_exp" or (isinstance(meter, dict) and bool(meter.get("flat_exp")))
        self.force_warm = meter.get("force_warm") if isinstance(meter, dict) else None
        self.no_storage = isinstance(meter, dict) and bool(meter.get("no_storage"))   # SLOAD/SSTORE charged nothing
        self.warm_log = []       # per state access (in execution order): was the slot/address already warm?
        self.gas = 0
        self.warm_slots = set()
        self.warm_addrs = set()
        self.mem_words = 0
        self.imm = {}

    def access(self, table, k):
        """warm/cold decision of the next state access; with force_warm the decision of the i-th access is
        taken from the given list (the alias structure observed on another state) instead of the values"""
        real = k in table
        table.add(k)
        i = len(self.warm_log)
        self.warm_log.append(real)
        if self.force_warm is not None and i < len(self.force_warm):
            return self.force_warm[i]
        return real

    # --- memory
    def _init_byte(self, a):
        if self.zero_mem:
            return 0
        c = a >> 5
        ch = self.chunks.get(c)
        if ch is None:
            ch = _prf("mem", self.seed, c)
            self.chunks[c] = ch
        return ch[a & 31]

    def _check(self, off, size):
        if size == 0:
            return
        if off + size > MEM_LIMIT:
            raise OOG()
        if self.meter:
            w = (off + size + 31) // 32
            if w > self.mem_words:
                def c(x):
                    return 3 * x + x * x // 512
                self.gas += c(w) - c(self.mem_words)
                self.mem_words = w

    def mread(self, off, size):
        self._check(off, size)
        mw = self.memw
        return bytes(mw[a] if a in mw else self._init_byte(a) for a in range(off, off + size))

    def mwrite(self, off, data):
        self._check(off, len(data))
        for i, b in enumerate(data):
            self.memw[off + i] = b

    # --- storage
    def sread(self, k):
        if k in self.stow:
            return self.stow[k]
        if self.zero_sto:
            return 0
        d = _prf("sto", self.seed, self.epoch, k)
        if d[0] & 3 == 0:
            return 0
        if d[0] & 3 == 1:
            return d[1]
        return int.from_bytes(d, "big")

    def bump(self):
        """A call/create happened: everything outside this frame may have changed."""
        self.epoch += 1
        self.stow = {}

    def env(self, name, *args):
        if name in ("BALANCE", "SELFBALANCE", "EXTCODESIZE", "EXTCODEHASH", "RETURNDATASIZE"):
            ep = self.epoch
        else:
            ep = 0
        if name == "SELFBALANCE":
            return self.env("BALANCE", self.env("ADDRESS"))
        if name == "PREVRANDAO":
            name = "DIFFICULTY"
        if name in ("BALANCE", "EXTCODESIZE", "EXTCODEHASH"):
            args = (args[0] & ADDR_MASK,)     # the EVM truncates addresses to 160 bits
        w = prf_word("env", self.seed, ep, name, *args)
        if name in ("ADDRESS", "ORIGIN", "CALLER", "COINBASE"):
            return w & ADDR_MASK
        if name in ("CALLDATASIZE", "CODESIZE", "RETURNDATASIZE", "EXTCODESIZE"):
            return w & 0xFFFF
        if name in ("TIMESTAMP", "NUMBER", "CHAINID", "GASLIMIT", "BASEFEE", "GASPRICE"):
            return w & 0xFFFFFFFFFFFF
        return w

    def sto_snapshot(self):
        return tuple(sorted(self.sto_final.items()))


class OOG(Exception):
    pass


GAS_BASE = {}
for _n in ("ADDRESS ORIGIN CALLER CALLVALUE CALLDATASIZE CODESIZE GASPRICE COINBASE TIMESTAMP NUMBER "
           "DIFFICULTY PREVRANDAO GASLIMIT POP PC MSIZE GAS RETURNDATASIZE CHAINID BASEFEE PUSH0").split():
    GAS_BASE[_n] = 2
for _n in ("ADD SUB NOT LT GT SLT SGT EQ ISZERO AND OR XOR BYTE CALLDATALOAD MLOAD MSTORE MSTORE8 "
           "SHL SHR SAR CALLDATACOPY CODECOPY RETURNDATACOPY").split():
    GAS_BASE[_n] = 3
for _n in "MUL DIV SDIV MOD SMOD SIGNEXTEND SELFBALANCE".split():
    GAS_BASE[_n] = 5
for _n in "ADDMOD MULMOD JUMP".split():
    GAS_BASE[_n] = 8
GAS_BASE.update({"JUMPI": 10, "JUMPDEST": 1, "BLOCKHASH": 20, "KECCAK256": 30, "SHA3": 30, "EXP": 10,
                 "CREATE": 32000, "CREATE2": 32000, "SELFDESTRUCT": 5000, "STOP": 0, "RETURN": 0,
                 "REVERT": 0, "INVALID": 0, "tag": 0, "ASSIGNIMMUTABLE": 0,
                 "LOG0": 375, "LOG1": 750, "LOG2": 1125, "LOG3": 1500, "LOG4": 1875})


def observe(block, state, meter=False, max_steps=100000):
    m = Machine(state, meter)
    st = m.st
    o = Obs()
    o.halt = "fall"
    steps = 0
    try:
        for name, value in block:
            steps += 1
            ar = ARITY.get(name)
            if ar is None:
                o.halt = "badop"
                break
            if len(st) < ar[0]:
                raise Underflow(name)
            if meter:
                if name in GAS_BASE:
                    m.gas += GAS_BASE[name]
                elif name.startswith(("PUSH", "DUP", "SWAP")):
                    m.gas += 3
            if name == "PUSH":
                v = int(value, 16)
                if v >= M:
                    o.halt = "badop"
                    break
                st.insert(0, v)
            elif name == "PUSH0":
                st.insert(0, 0)
            elif name in PSEUDO_PUSH:
                st.insert(0, pseudo_value(name, value))
            elif name.startswith("DUP"):
                k = int(name[3:])
                st.insert(0, st[k - 1])
            elif name.startswith("SWAP"):
                k = int(name[4:])
                st[0], st[k] = st[k], st[0]
            elif name == "POP":
                st.pop(0)
            elif name in opsem.OPS:
                n = ar[0]
                args = st[:n]
                del st[:n]
                if name in ("DIV", "SDIV", "MOD", "SMOD", "SHL", "SHR", "SAR", "BYTE", "SIGNEXTEND",
                            "LT", "GT", "SLT", "SGT", "EQ", "EXP", "ADDMOD", "MULMOD"):
                    m.used.extend(args)
                if meter and name == "EXP":
                    # meter == "flat_exp": the tool's static price (60 = one exponent byte) instead of EIP-160
                    m.gas += 50 if m.flat_exp else 50 * ((args[1].bit_length() + 7) // 8)
                st.insert(0, opsem.apply(name, args))
            elif name in ENV0:
                st.insert(0, m.env(name))
            elif name in ENV1:
                a = st.pop(0)
                m.used.append(a)
                if meter and name in ("BALANCE", "EXTCODESIZE", "EXTCODEHASH"):
                    ad = a & ADDR_MASK
                    m.gas += 100 if m.access(m.warm_addrs, ad) else 2600
                st.insert(0, m.env(name, a))
            elif name == "GAS":
                st.insert(0, prf_word("gas", m.seed, m.gas_n))
                m.gas_n += 1
            elif name in ("PC", "MSIZE"):
                # not compared (DESIGN 1.1): deterministic stand-in; kept out of deciding generators
                st.insert(0, prf_word(name, m.seed))
            elif name == "MLOAD":
                a = st.pop(0)
                m.used.append(a)
                st.insert(0, int.from_bytes(m.mread(a, 32), "big"))
            elif name == "MSTORE":
                a = st.pop(0)
                v = st.pop(0)
                m.used.append(a)
                m.mwrite(a, v.to_bytes(32, "big"))
            elif name == "MSTORE8":
                a = st.pop(0)
                v = st.pop(0)
                m.used.append(a)
                m.mwrite(a, bytes([v & 0xFF]))
            elif name == "SLOAD":
                k = st.pop(0)
                m.used.append(k)
                if meter and not m.no_storage:
                    m.gas += 100 if m.access(m.warm_slots, k) else 2100
                st.insert(0, m.sread(k))
            elif name == "SSTORE":
                k = st.pop(0)
                v = st.pop(0)
                m.used.append(k)
                if meter and not m.no_storage:
                    # EIP-2929 + EIP-2200/3529 (no refunds): original = value at the start of the block / after
                    # the last call, current = value now
                    if not m.access(m.warm_slots, k):
                        m.gas += 2100
                    cur = m.sread(k)
                    saved = m.stow.pop(k, None)
                    orig_v = m.sread(k)
                    if saved is not None:
                        m.stow[k] = saved
                    if cur == v:
                        m.gas += 100
                    elif orig_v == cur:
                        m.gas += 20000 if orig_v == 0 else 2900
                    else:
                        m.gas += 100
                m.stow[k] = v
                m.sto_final[(m.epoch, k)] = v
            elif name in ("KECCAK256", "SHA3"):
                a = st.pop(0)
                n = st.pop(0)
                m.used.extend((a, n))
                if a > MEM_LIMIT or n > MEM_LIMIT:
                    raise OOG()
                data = m.mread(a, n)
                if meter:
                    m.gas += 6 * ((n + 31) // 32)
                st.insert(0, int.from_bytes(hashlib.sha3_256(data).digest(), "big"))
            elif name.startswith("LOG"):
                nt = int(name[3:])
                a = st.pop(0)
                n = st.pop(0)
                topics = [st.pop(0) for _ in range(nt)]
                if a > MEM_LIMIT or n > MEM_LIMIT:
                    raise OOG()
                if meter:
                    m.gas += 8 * n
                o_ev = (name, tuple(topics), m.mread(a, n))
                m.trace.append(o_ev)
            elif name in CALLS:
                n = CALLS[name]
                args = [st.pop(0) for _ in range(n)]
                in_off, in_sz, out_off, out_sz = args[-4:]
                for x in (in_off, in_sz, out_off, out_sz):
                    if x > MEM_LIMIT:
                        raise OOG()
                data = m.mread(in_off, in_sz)
                m._check(out_off, out_sz)
                # args[0] is the gas argument: observable only up to what the callee can tell; kept.
                m.trace.append((name, tuple(args), data, m.sto_snapshot()))
                m.bump()
                ret = _prf("ret", m.seed, m.epoch)
                m.mwrite(out_off, bytes(ret[i % 32] for i in range(out_sz)))
                st.insert(0, prf_word("callres", m.seed, m.epoch) & 1)
            elif name in ("CREATE", "CREATE2"):
                n = 3 if name == "CREATE" else 4
                args = [st.pop(0) for _ in range(n)]
                off, sz = args[1], args[2]
                if off > MEM_LIMIT or sz > MEM_LIMIT:
                    raise OOG()
                m.trace.append((name, tuple(args), m.mread(off, sz), m.sto_snapshot()))
                m.bump()
                st.insert(0, prf_word("created", m.seed, m.epoch) & ADDR_MASK)
            elif name in ("CALLDATACOPY", "CODECOPY", "RETURNDATACOPY"):
                d, s, n = st.pop(0), st.pop(0), st.pop(0)
                m.used.extend((d, s, n))
                if d > MEM_LIMIT or n > MEM_LIMIT:
                    raise OOG()
                m.trace.append((name, d, s, n))
                if meter:
                    m.gas += 3 * ((n + 31) // 32)
                ep = m.epoch if name == "RETURNDATACOPY" else 0
                m.mwrite(d, bytes(_prf(name, m.seed, ep, s + i)[0] for i in range(n)) if n <= 4096 else
                         bytes(_prf(name, m.seed, ep, s, i >> 5)[i & 31] for i in range(n)))
            elif name == "EXTCODECOPY":
                ad, d, s, n = st.pop(0), st.pop(0), st.pop(0), st.pop(0)
                if d > MEM_LIMIT or n > MEM_LIMIT:
                    raise OOG()
                m.trace.append((name, ad & ADDR_MASK, d, s, n))
                m.mwrite(d, bytes(_prf(name, m.seed, m.epoch, ad & ADDR_MASK, s, i >> 5)[i & 31] for i in range(n)))
            elif name == "ASSIGNIMMUTABLE":
                a = st.pop(0)
                v = st.pop(0)
                m.trace.append((name, str(value), a, v))
            elif name in ("JUMPDEST", "tag"):
                pass
            elif name in ("RETURN", "REVERT"):
                a = st.pop(0)
                n = st.pop(0)
                if a > MEM_LIMIT or n > MEM_LIMIT:
                    raise OOG()
                m.trace.append((name, m.mread(a, n)))
                o.halt = name
                break
            elif name in ("STOP", "INVALID"):
                m.trace.append((name,))
                o.halt = name
                break
            elif name == "SELFDESTRUCT":
                m.trace.append((name, st.pop(0) & ADDR_MASK))
                o.halt = name
                break
            elif name == "JUMP":
                m.trace.append((name, st.pop(0)))
                o.halt = "JUMP"
                break
            elif name == "JUMPI":
                t = st.pop(0)
                c = st.pop(0)
                m.used.append(c)
                m.trace.append((name, t, int(c != 0)))
                o.halt = "JUMPI"
                break
            else:
                o.halt = "badop"
                break
            if steps > max_steps:
                o.halt = "badop"
                break
    except Underflow:
        o.halt = "underflow"
    except OOG:
        o.halt = "oog"
    o.trace = m.trace
    o.stack = list(st)
    # final memory: only bytes that differ from the initial content matter
    o.mem = {a: b for a, b in m.memw.items() if b != m._init_byte(a)}
    o.sto = dict(m.sto_final)
    o.steps = steps
    o.gas = m.gas
    o.warm_log = m.warm_log
    o.err = None
    o.used = m.used
    return o


def distinguishes(b1, b2, state):
    """None if sigma cannot tell b1 from b2 (or is uninformative), else a short reason."""
    o1 = observe(b1, state)
    if o1.halt in ("oog", "underflow", "badop"):
        return None                       # original exceptional on sigma: no requirement (DESIGN 1.1)
    o2 = observe(b2, state)
    if o1.key() == o2.key():
        return None
    return explain(o1, o2)


def explain(o1, o2):
    if o2.halt in ("oog", "underflow", "badop"):
        return "candidate-" + o2.halt
    if o1.halt != o2.halt:
        return "halt %s/%s" % (o1.halt, o2.halt)
    if len(o1.trace) != len(o2.trace):
        return "trace-length %d/%d" % (len(o1.trace), len(o2.trace))
    for e1, e2 in zip(o1.trace, o2.trace):
        if e1 != e2:
            return "trace-event %s" % (e1[0],)
    if o1.halt in ("REVERT", "INVALID"):
        return "?"
    if o1.sto != o2.sto:
        return "storage"
    if o1.halt in ("STOP", "RETURN", "SELFDESTRUCT"):
        return "?"
    if len(o1.stack) != len(o2.stack):
        return "stack-height %d/%d" % (len(o1.stack), len(o2.stack))
    if o1.stack != o2.stack:
        return "stack"
    if o1.mem != o2.mem:
        return "memory"
    return "?"


# ----------------------------------------------------------------- conversions
def from_plain_tokens(tokens):
    """['PUSH 3','DUP2','PUSH [tag] 5','PUSH0', 'ASSIGNIMMUTABLE 12'] -> [(name,value)]"""
    out = []
    for t in tokens:
        t = t.strip()
        if not t:
            continue
        parts = t.split(" ")
        if parts[0] == "PUSH" and len(parts) == 2:
            out.append(("PUSH", parts[1]))
        elif parts[0] == "PUSH" and len(parts) == 3:
            out.append(("PUSH " + parts[1], parts[2]))
        elif len(parts) == 2:
            out.append((parts[0], parts[1]))
        else:
            out.append((parts[0], None))
    return out


def from_plain_string(s):
    """'PUSH 3 DUP2 PUSH [tag] 5 ADD' (the repository's to_plain rendering) -> [(name,value)]"""
    toks = [t for t in s.replace("\n", " ").split(" ") if t]
    out = []
    i = 0
    while i < len(toks):
        t = toks[i]
        if t == "PUSH":
            if toks[i + 1] in ("[tag]", "data", "[$]", "#[$]"):
                out.append(("PUSH " + toks[i + 1], toks[i + 2]))
                i += 3
            else:
                out.append(("PUSH", toks[i + 1]))
                i += 2
        elif t in ("PUSHLIB", "PUSHIMMUTABLE", "ASSIGNIMMUTABLE", "tag"):
            out.append((t, toks[i + 1]))
            i += 2
        else:
            out.append((t, None))
            i += 1
    return out


def to_plain_string(block):
    return " ".join(n if v is None else "%s %s" % (n, v) for n, v in block)
