"""Stand-in solver machinery: loads the .smt2 text the real encoder wrote into z3, enumerates
models of the hard constraints, computes Max-SMT optima, and renders models in the output
format of the solver the tool expects (so that the tool's own get_value regexes decode them).
Independent of the repository (works on the SMT-LIB text only)."""
import re

from . import smt


class Script:
    def __init__(self, text):
        self.text = text
        self.lines = [l for l in text.split("\n") if l.strip()]
        self.decl_lines = [l for l in self.lines if l.startswith(("(declare-sort", "(declare-fun", "(declare-const"))]
        self.hard_lines = [l for l in self.lines if l.startswith("(assert ")]
        self.soft_lines = [l for l in self.lines if l.startswith("(assert-soft")]
        self.minimize = [l for l in self.lines if l.startswith("(minimize")]
        self.soft = []      # (formula text, weight, id)
        for l in self.soft_lines:
            m = re.match(r"\(assert-soft (.*) :weight (-?\d+)(?: :id (\S+))?\)\s*$", l)
            if not m:
                raise ValueError("unreadable assert-soft: " + l[:80])
            self.soft.append((m.group(1), int(m.group(2)), m.group(3)))
        self.t_names = sorted(set(re.findall(r"\(declare-fun (t_\d+) \(\)", text)), key=lambda n: int(n[2:]))
        self.theta_names = sorted(set(re.findall(r"\(declare-fun (theta_\d+) \(\)", text)), key=lambda n: int(n[6:]))
        self.a_names = sorted(set(re.findall(r"\(declare-fun (a_\d+) \(\)", text)), key=lambda n: int(n[2:]))

    def z3_load(self):
        import z3
        base = "\n".join(self.decl_lines)
        body = base + "\n" + "\n".join(self.hard_lines) + "\n" + "\n".join("(assert %s)" % f for f, _, _ in self.soft)
        vec = z3.parse_smt2_string(body)
        n_hard = len(self.hard_lines)
        hard = [vec[i] for i in range(n_hard)]
        soft = [(vec[n_hard + i], self.soft[i][1]) for i in range(len(self.soft))]
        # constants by name
        consts = {}
        names = self.t_names + self.theta_names + self.a_names
        if names:
            probe = base + "\n" + "\n".join("(assert (= %s %s))" % (n, n) for n in names)
            pv = z3.parse_smt2_string(probe)
            for n, e in zip(names, pv):
                consts[n] = e.arg(0)
        return hard, soft, consts


class Enumerator:
    def __init__(self, script, timeout_ms=5000):
        import z3
        self.z3 = z3
        self.script = script
        self.hard, self.soft, self.consts = script.z3_load()
        self.timeout_ms = timeout_ms
        self.t = [self.consts[n] for n in script.t_names]
        self.theta = [self.consts[n] for n in script.theta_names]
        self.a = [self.consts[n] for n in script.a_names]

    def _solver(self):
        s = self.z3.Solver()
        s.set("timeout", self.timeout_ms)
        s.add(*self.hard)
        return s

    def _project(self, m):
        """value of every t_j as (theta index or int)"""
        z3 = self.z3
        vals = []
        if self.theta:
            tv = [m.eval(th, model_completion=True) for th in self.theta]
        for tj in self.t:
            v = m.eval(tj, model_completion=True)
            if self.theta:
                k = next((i for i, x in enumerate(tv) if x.eq(v)), None)
                vals.append(("theta", k))
            else:
                vals.append(("int", v.as_long()))
        avals = [m.eval(a, model_completion=True) for a in self.a]
        return vals, avals

    def models(self, cap=5000, on_timeout=None):
        """yields (projection, model) for all models of the hard constraints projected on t (and a)"""
        z3 = self.z3
        s = self._solver()
        n = 0
        while n < cap:
            r = s.check()
            if r == z3.unsat:
                return
            if r != z3.sat:
                if on_timeout:
                    on_timeout()
                return
            m = s.model()
            proj, avals = self._project(m)
            yield proj, avals, m
            n += 1
            block = []
            for tj, (kind, v) in zip(self.t, proj):
                if kind == "theta":
                    if v is None:
                        block.append(z3.BoolVal(True))
                    else:
                        block.append(tj != self.theta[v])
                else:
                    block.append(tj != v)
            for a, v in zip(self.a, avals):
                block.append(a != v)
            s.add(z3.Or(*block) if block else z3.BoolVal(False))

    def sat(self):
        s = self._solver()
        return s.check()

    def optimum(self):
        """Max-SMT optimum: (model, penalty) minimising the weight of violated soft constraints"""
        z3 = self.z3
        o = z3.Optimize()
        o.set("timeout", self.timeout_ms * 4)
        o.add(*self.hard)
        for f, w in self.soft:
            o.add_soft(f, w)
        r = o.check()
        if r != z3.sat:
            return None, None, r
        m = o.model()
        return m, self.penalty(m), r

    def penalty(self, m):
        z3 = self.z3
        p = 0
        for f, w in self.soft:
            if not z3.is_true(m.eval(f, model_completion=True)):
                p += w
        return p

    def render(self, m, style):
        """model text in the output format of z3 ('z3') or OptiMathSAT ('oms') for the variables the
        tool's reader asks for"""
        z3 = self.z3
        out = ["sat", "(objectives", " (cost 0)", ")"] if style == "z3" else ["sat", "(objectives", " (cost 0)", ")"]
        out.append("(model " if style == "z3" else "(")
        for name in self.script.theta_names + self.script.t_names + self.script.a_names:
            e = self.consts[name]
            v = m.eval(e, model_completion=True)
            sort = e.sort().name()
            vs = v.sexpr() if hasattr(v, "sexpr") else str(v)
            if style == "z3":
                out.append("  (define-fun %s () %s\n    %s)" % (name, sort, vs))
            else:
                out.append("  (define-fun %s () %s %s)" % (name, sort, vs))
        out.append(")")
        return "\n".join(out)
