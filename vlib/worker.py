"""Worker side of vlib.pool: python -m vlib.worker <module:function> <fd>"""
import importlib
import json
import os
import sys
import traceback


def main():
    spec, fd = sys.argv[1], int(sys.argv[2])
    out = os.fdopen(fd, "wb", buffering=0)
    # the repository prints a lot; keep our channel clean
    devnull = os.open(os.devnull, os.O_WRONLY)
    os.dup2(devnull, 1)
    if os.environ.get("GASOL_VERIF_WORKER_STDERR") != "1":
        os.dup2(devnull, 2)
    sys.setrecursionlimit(10000)
    modname, fname = spec.split(":")
    mod = importlib.import_module(modname)
    fn = getattr(mod, fname)
    for line in sys.stdin.buffer:
        try:
            case = json.loads(line)
        except Exception:
            break
        try:
            res = fn(case)
        except BaseException as e:  # the handler is expected to contain repo exceptions itself
            res = {"_handler_exception": "%s: %s" % (type(e).__name__, e),
                   "_tb": traceback.format_exc()[-2000:]}
        out.write((json.dumps(res, default=str) + "\n").encode())


if __name__ == "__main__":
    main()
