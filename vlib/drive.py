"""In-process driver of the real gasol pipeline (runs inside pool workers).

Imports the repository from /repo's current working tree (PYTHONPATH set by
vlib.pool.worker_env).  Everything here *calls* repository code; oracles live
elsewhere and never import it.
"""
import copy
import os
import shutil
import sys
import tempfile
import io
import contextlib

_ready = False
R = {}            # repository modules by short name
ORIG_SPLIT = None


def _setup_paths():
    import global_params.paths as paths
    base = os.environ.get("GASOL_VERIF_SCRATCH") or tempfile.gettempdir()
    tmp = os.path.join(base, "w%d" % os.getpid()) + "/"
    os.makedirs(tmp, exist_ok=True)
    paths.tmp_path = tmp
    paths.gasol_folder = "gasol_w"
    paths.gasol_path = tmp + paths.gasol_folder + "/"
    paths.json_path = paths.gasol_path + "jsons"
    paths.smt_encoding_path = paths.gasol_path + "smt_encoding/"
    paths.solutions_path = paths.gasol_path + "solutions/"
    paths.dot_path = paths.gasol_path + "dot/"
    paths.csv_file = paths.gasol_path + "solutions/statistics.csv"
    return paths


def setup():
    """import the repository once; returns dict of modules"""
    global _ready, ORIG_SPLIT
    if _ready:
        return R
    paths = _setup_paths()
    import gasol_asm
    import global_params.constants as constants
    import sfs_generator.gasol_optimization as gopt
    import sfs_generator.ir_block as ir_block
    import sfs_generator.parser_asm as parser_asm
    import greedy.block_generation as greedy_bg
    import verification.sfs_verify as sfs_verify
    import solution_generation.optimize_from_sub_blocks as rebuild_mod
    import solution_generation.ids2asm as ids2asm
    from global_params.options import OptimizationParams
    R.update(gasol_asm=gasol_asm, constants=constants, gopt=gopt, ir_block=ir_block, parser_asm=parser_asm,
             greedy=greedy_bg, sfs_verify=sfs_verify, rebuild=rebuild_mod, ids2asm=ids2asm, paths=paths,
             OptimizationParams=OptimizationParams)
    ORIG_SPLIT = set(constants.split_block)
    _ready = True
    return R


_ncalls = 0


def clean_scratch(force=False):
    global _ncalls
    _ncalls += 1
    if force or _ncalls % 40 == 0:
        p = R["paths"].gasol_path
        shutil.rmtree(p, ignore_errors=True)


def make_params(opts, input_file="verif.json_solc"):
    """Build OptimizationParams through the tool's own ArgumentParser and apply the global
    settings execute_gasol applies."""
    setup()
    from argparse import ArgumentParser
    ga = R["gasol_asm"]
    ap = ArgumentParser()
    ga.options_gasol(ap)
    ns = ap.parse_args([input_file] + list(opts))
    params = R["OptimizationParams"]()
    params.parse_args(ns)
    apply_globals(params)
    ga.modify_file_names(params)
    return params


def apply_globals(params):
    c = R["constants"]
    c.split_block = set(ORIG_SPLIT)
    if params.split_storage:
        c.append_store_instructions_to_split()
    c._set_push0(params.push0)
    R["gasol_asm"].init()


def build_blocks(items, cname="vc", prefix="vc_run"):
    return R["parser_asm"].build_blocks_from_asm_representation(cname, prefix, copy.deepcopy(items), False)


PSEUDO_REAL = ("PUSHLIB",)


def asm_pairs(block_or_list):
    """AsmBlock / list of AsmBytecode -> [(name, value)] as the emitted JSON would carry them"""
    instrs = block_or_list.instructions if hasattr(block_or_list, "instructions") else block_or_list
    out = []
    for bc in instrs:
        j = bc.to_json()
        out.append((j["name"], None if "value" not in j else str(j["value"])))
    return out


class SpecRecorder:
    """Records what compute_original_sfs_with_simplifications returns (deep copies)."""

    def __init__(self):
        self.records = []
        ga = R["gasol_asm"]
        self.orig = ga.compute_original_sfs_with_simplifications
        rec = self

        def wrapper(block, params):
            res = rec.orig(block, params)
            try:
                sfs, sub = res
                rec.records.append((block.block_name, copy.deepcopy(sfs.get("syrup_contract", {})),
                                    copy.deepcopy(sub)))
            except Exception:
                pass
            return res
        self.wrapper = wrapper

    def __enter__(self):
        R["gasol_asm"].compute_original_sfs_with_simplifications = self.wrapper
        return self

    def __exit__(self, *a):
        R["gasol_asm"].compute_original_sfs_with_simplifications = self.orig


def run_block(block, params, contain=True):
    """Exactly what optimize_asm_contract does for one block.
    Returns dict(emitted, changed, exc_opt, exc_cmp, eq, reason, log, csv, candidate)"""
    ga = R["gasol_asm"]
    res = {"exc_opt": None, "exc_cmp": None, "eq": None, "reason": None, "log": {}, "csv": []}
    try:
        optimized_block, log_element, csv_statistics = ga.optimize_asm_block_asm_format(block, params)
    except Exception as e:
        res["exc_opt"] = "%s: %s" % (type(e).__name__, str(e)[:200])
        res["emitted"] = block
        res["changed"] = False
        res["candidate"] = None
        return res
    res["candidate"] = optimized_block
    res["csv"] = csv_statistics
    try:
        eq, reason = ga.compare_asm_block_asm_format(block, optimized_block, params)
    except Exception as e:
        res["exc_cmp"] = "%s: %s" % (type(e).__name__, str(e)[:200])
        res["emitted"] = block
        res["changed"] = False
        return res
    res["eq"] = bool(eq)
    res["reason"] = reason
    if not eq:
        optimized_block = block
        log_element = {}
    res["log"] = log_element
    res["emitted"] = optimized_block
    res["changed"] = asm_pairs(optimized_block) != asm_pairs(block)
    return res
