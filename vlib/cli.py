"""Entry point: ./check <Cxx|selftest|setup> [--tier quick|thorough] [--replay file]"""
import importlib
import os
import subprocess
import sys

VERIF = os.path.dirname(os.path.dirname(os.path.abspath(__file__)))


def setup():
    deps = os.path.join(VERIF, ".deps")
    need = []
    for mod, pkg in (("z3", "z3-solver"), ("icontract", "icontract"), ("jsonschema", "jsonschema")):
        if not os.path.isdir(os.path.join(deps, mod)):
            need.append(pkg)
    if need:
        subprocess.check_call(["/venv/bin/pip", "install", "-q", "--no-index", "--find-links",
                               "/opt/veriftools/wheels", "--target", deps] + need)
    return 0


def selftest():
    from vlib import opsem
    n, bad = opsem.selftest()
    print("opsem selftest: %d operator applications cross-checked against z3, mismatches: %s" % (n, bad and len(bad)))
    if bad:
        print(bad[:5])
        return 2
    return 0


def main():
    args = sys.argv[1:]
    if not args:
        print(__doc__)
        return 2
    what = args[0]
    if "--tier" in args:
        os.environ["VERIF_TIER"] = args[args.index("--tier") + 1]
    os.environ.setdefault("VERIF_TIER", "quick")
    if what == "setup":
        return setup()
    setup()
    if what == "selftest":
        return selftest()
    mod = importlib.import_module("monitors." + what.lower())
    if "--replay" in args:
        return mod.replay(args[args.index("--replay") + 1])
    return mod.run()


if __name__ == "__main__":
    sys.exit(main())
