"""Delta debugging of witness blocks.

minimize_block(block, pred, budget): pred(block) returns a truthy result when the block still
exhibits the violation.  Returns (minimal block, pred result on it)."""


def _simpler_consts(v):
    try:
        x = int(v, 16)
    except Exception:
        return []
    cands = []
    for c in (0, 1, 2, 0x20):
        if c != x:
            cands.append("%x" % c)
    return cands


def minimize_block(block, pred, budget=120):
    best = list(block)
    best_res = None
    calls = 0

    def test(b):
        nonlocal calls
        calls += 1
        try:
            return pred(b)
        except Exception:
            return None

    # chunked removal (ddmin-like)
    n = 2
    while len(best) >= 2 and calls < budget:
        chunk = max(1, len(best) // n)
        removed = False
        i = 0
        while i < len(best) and calls < budget:
            cand = best[:i] + best[i + chunk:]
            if cand:
                r = test(cand)
                if r:
                    best, best_res = cand, r
                    removed = True
                    continue
            i += chunk
        if not removed:
            if chunk == 1:
                break
            n = min(len(best), n * 2)
    # simplify constants
    for i in range(len(best)):
        if calls >= budget:
            break
        name, v = best[i]
        if name == "PUSH" and v is not None:
            for c in _simpler_consts(v):
                cand = list(best)
                cand[i] = ("PUSH", c)
                r = test(cand)
                if r:
                    best, best_res = cand, r
                    break
    if best_res is None and calls < budget + 1:
        best_res = test(best)
    return best, best_res
