"""Independent cost meters for assembly-item blocks ([(name, value)] pairs).

bytes: solc libevmasm AssemblyItem::bytesRequired (address length 2, one occurrence per
immutable); length: number of non-tag items; gas: metered execution (vlib.evm with meter=True)
plus a static table used only to reconcile printed totals.
"""
from . import evm


def item_bytes(name, value, push0):
    if name == "tag":
        return 0
    if name == "PUSH0":
        return 1
    if name == "PUSH":
        v = int(value, 16)
        if v == 0 and push0:
            return 1
        return 1 + max(1, (v.bit_length() + 7) // 8)
    if name in ("PUSH [tag]", "PUSH data", "PUSH [$]"):
        return 1 + 2
    if name in ("PUSH #[$]", "PUSHSIZE"):
        return 1 + 4
    if name in ("PUSHLIB", "PUSHDEPLOYADDRESS"):
        return 1 + 20
    if name == "PUSHIMMUTABLE":
        return 1 + 32
    if name == "ASSIGNIMMUTABLE":
        return 3 + 32
    return 1


def block_bytes(block, push0):
    return sum(item_bytes(n, v, push0) for n, v in block)


def block_length(block):
    return sum(1 for n, _ in block if n != "tag")


def metered_gas(block, state, flat_exp=False):
    """(gas, halt) of executing block on state with cold access sets; PUSH0 priced 2."""
    o = evm.observe(block, state, meter="flat_exp" if flat_exp else True)
    return o.gas, o.halt


def zero_push_adjust(block, push0):
    """the interpreter prices every PUSH at 3; a zero push under push0 costs 2"""
    if not push0:
        return 0
    return -sum(1 for n, v in block if n == "PUSH" and int(v, 16) == 0)


def static_gas(block, push0, flat_exp=False):
    """static estimate used only when no sampled state is informative (every state halts out of gas):
    base cost per item, cold prices for state accesses, no dynamic parts (flat_exp: EXP priced with one
    exponent byte, as the tool does, instead of none)"""
    g = 0
    for n, v in block:
        if n in evm.GAS_BASE:
            g += evm.GAS_BASE[n]
            if flat_exp and n == "EXP":
                g += 50
        elif n == "PUSH":
            g += 2 if (push0 and int(v, 16) == 0) else 3
        elif n.startswith(("PUSH", "DUP", "SWAP")):
            g += 3
        elif n in ("SLOAD",):
            g += 2100
        elif n == "SSTORE":
            g += 5000
        elif n in ("BALANCE", "EXTCODESIZE", "EXTCODEHASH", "EXTCODECOPY"):
            g += 2600
        elif n in evm.CALLS:
            g += 2600
    return g


def static_storage_gas(block, sreset=2900):
    """The *static* price of the storage accesses of a block, as a static gas model can know it: an SLOAD/SSTORE is
    warm iff an earlier access of the block has a syntactically identical key term (no constant folding, no
    knowledge of values); SSTORE additionally 100 when the same key term was stored before in the block, otherwise
    the reset price.  Written independently of the repository (own symbolic stack of term strings); used only to
    classify gas increases (monitors/c08.py), never as the verdict."""
    need, _ = evm.stack_effect(block)
    st = ["s%d" % i for i in range(need)]
    touched, stored = set(), set()
    g = 0
    for n, v in block:
        if n == "PUSH":
            st.insert(0, "c%x" % int(v, 16))
        elif n == "PUSH0":
            st.insert(0, "c0")
        elif n.startswith("DUP") and n[3:].isdigit():
            st.insert(0, st[int(n[3:]) - 1])
        elif n.startswith("SWAP") and n[4:].isdigit():
            k = int(n[4:])
            st[0], st[k] = st[k], st[0]
        elif n == "POP":
            st.pop(0)
        elif n == "SLOAD":
            k = st.pop(0)
            g += 100 if k in touched else 2100
            touched.add(k)
            st.insert(0, "SLOAD(%s)" % k)
        elif n == "SSTORE":
            k = st.pop(0)
            st.pop(0)
            g += (0 if k in touched else 2100) + (100 if k in stored else sreset)
            touched.add(k)
            stored.add(k)
        else:
            ar = evm.ARITY.get(n)
            if ar is None:
                break
            args = [st.pop(0) for _ in range(ar[0])] if len(st) >= ar[0] else []
            for i in range(ar[1]):
                st.insert(0, "%s%s(%s)" % (n, "" if v is None else "<%s>" % v, ",".join(args)))
    return g
