"""Runs the real gasol_asm.py command line in a scratch working directory and collects what it
emits (exit status, stdout, files by their default names, CPU time, peak RSS)."""
import glob
import json
import os
import re
import resource
import shutil
import subprocess
import sys
import tempfile
import time

PY = "/venv/bin/python"
VERIF = os.path.dirname(os.path.dirname(os.path.abspath(__file__)))
LAUNCHER = os.path.join(VERIF, "vlib", "gasol_launcher.py")


class CliResult:
    def __init__(self):
        self.rc = None
        self.stdout = ""
        self.stderr_tail = ""
        self.files = {}
        self.wall = 0.0
        self.cpu = 0.0
        self.maxrss = 0
        self.timeout = False
        self.cpu_exceeded = False
        self.cwd = None

    def json_file(self, suffix):
        for n, c in self.files.items():
            if n.endswith(suffix):
                try:
                    return json.loads(c)
                except Exception:
                    return None
        return None

    def text_file(self, suffix):
        for n, c in self.files.items():
            if n.endswith(suffix):
                return c
        return None

    def totals(self):
        """the six printed numbers (or None)"""
        pats = {"gas0": r"Estimated initial gas: (-?\d+)", "gas1": r"Estimated gas optimized: (-?\d+)",
                "size0": r"Estimated initial size in bytes: (-?\d+)", "size1": r"Estimated size optimized in bytes: (-?\d+)",
                "len0": r"Initial number of instructions: (-?\d+)", "len1": r"Final number of instructions: (-?\d+)"}
        out = {}
        for k, p in pats.items():
            m = re.search(p, self.stdout)
            if not m:
                return None
            out[k] = int(m.group(1))
        return out


def watchdog(res, run, label):
    """True (and the run is marked inconclusive) when the wall-clock watchdog ended this CLI run"""
    if res.timeout:
        run.inconclusive.append("wall-clock watchdog ended a CLI run: %s" % (label,))
        return True
    return False


def run_cli(doc_or_path, opts, stem="input", suffix=".json_solc", hashseed="0", timeout=600, extra_files=None,
            keep=False, env_extra=None, launcher=False, rlimit_as=None, collect_specs=False):
    """doc_or_path: a dict (written as JSON), a string containing the file text, or a path to copy.
    timeout is a budget of CPU seconds (RLIMIT_CPU: res.cpu_exceeded, rc -24); the wall-clock watchdog
    is 4 x timeout and only ever yields res.timeout (inconclusive, never a verdict)."""
    cwd = tempfile.mkdtemp(prefix="gasol_cli_")
    res = CliResult()
    res.cwd = cwd
    inp = os.path.join(cwd, stem + suffix)
    if isinstance(doc_or_path, dict):
        with open(inp, "w") as f:
            json.dump(doc_or_path, f)
    elif isinstance(doc_or_path, str) and os.path.exists(doc_or_path):
        shutil.copy(doc_or_path, inp)
    else:
        with open(inp, "w") as f:
            f.write(doc_or_path)
    for name, content in (extra_files or {}).items():
        with open(os.path.join(cwd, name), "w") as f:
            f.write(content)
    env = dict(os.environ)
    env["PYTHONHASHSEED"] = str(hashseed)
    env["PYTHONWARNINGS"] = "ignore"
    env["PYTHONDONTWRITEBYTECODE"] = "1"
    env.pop("PYTHONPATH", None)
    env.pop("GASOL_VERIF", None)
    if env_extra:
        env.update(env_extra)
    script = LAUNCHER      # always: moves the tool's /tmp/gasol_<uuid> directory into the scratch cwd
    cmd = [PY, script, stem + suffix] + list(opts)
    t0 = time.time()

    def pre():
        if rlimit_as:
            resource.setrlimit(resource.RLIMIT_AS, (rlimit_as, rlimit_as))
        resource.setrlimit(resource.RLIMIT_CPU, (int(timeout), int(timeout) + 5))
    ru0 = resource.getrusage(resource.RUSAGE_CHILDREN)
    try:
        p = subprocess.run(cmd, cwd=cwd, env=env, stdout=subprocess.PIPE, stderr=subprocess.PIPE, timeout=4 * timeout,
                           preexec_fn=pre)
        res.rc = p.returncode
        res.stdout = p.stdout.decode("utf8", "replace")
        res.stderr_tail = p.stderr.decode("utf8", "replace")[-3000:]
        res.cpu_exceeded = p.returncode in (-24, -9)
    except subprocess.TimeoutExpired as e:
        res.timeout = True
        res.rc = -9
        res.stdout = (e.stdout or b"").decode("utf8", "replace")
    ru1 = resource.getrusage(resource.RUSAGE_CHILDREN)
    res.wall = time.time() - t0
    res.cpu = (ru1.ru_utime + ru1.ru_stime) - (ru0.ru_utime + ru0.ru_stime)
    res.maxrss = ru1.ru_maxrss * 1024
    for fn in os.listdir(cwd):
        if fn == stem + suffix or fn == ".gasol_tmp":
            continue
        path = os.path.join(cwd, fn)
        if os.path.isfile(path) and os.path.getsize(path) < 200 * 1024 * 1024:
            try:
                with open(path) as f:
                    res.files[fn] = f.read()
            except Exception:
                pass
    res.specs = {}
    if collect_specs:
        for path in glob.glob(os.path.join(cwd, ".gasol_tmp", "gasol_*", "jsons", "*.json")):
            try:
                with open(path) as f:
                    res.specs[os.path.basename(path)] = f.read()
            except Exception:
                pass
    if not keep:
        shutil.rmtree(cwd, ignore_errors=True)
    return res


# ------------------------------------------------------------------ independent readers of asm documents
def code_streams(doc, only_contract=None):
    """yields (contract, kind, data_id, items) for the init stream and every top-level runtime stream"""
    for cname, c in doc.get("contracts", {}).items():
        asm = c.get("asm")
        if not asm:
            continue
        short = cname.split("/")[-1].split(":")[-1]
        if only_contract is not None and short != only_contract:
            continue
        yield cname, "init", None, asm.get(".code", [])
        for did, d in asm.get(".data", {}).items():
            if isinstance(d, dict) and ".code" in d:
                yield cname, "run", did, d[".code"]


def item_pair(it):
    return (it["name"], None if "value" not in it else str(it["value"]))
