"""Supervised worker pool.

N long-lived workers (fresh /venv/bin/python processes) are fed JSON cases over
pipes.  The parent reads each worker's CPU time (utime+stime) and peak RSS
(VmHWM) from /proc, enforces a per-case CPU budget and a generous wall-clock
watchdog, kills and restarts the worker on expiry.  In-process alarms are never
used (the repository swallows exceptions with bare `except:`).

Worker protocol: one JSON object per line on fd 3->parent; stdout/stderr of the
worker itself are redirected to /dev/null (the repository prints a lot).
"""
import json
import os
import selectors
import subprocess
import sys
import time

VERIF = os.path.dirname(os.path.dirname(os.path.abspath(__file__)))
PY = "/venv/bin/python"
CLK = os.sysconf("SC_CLK_TCK")


def _cpu(pid):
    try:
        with open("/proc/%d/stat" % pid) as f:
            s = f.read()
        rest = s[s.rindex(")") + 2:].split()
        return (int(rest[11]) + int(rest[12])) / CLK
    except Exception:
        return None


def _hwm(pid):
    try:
        with open("/proc/%d/status" % pid) as f:
            for line in f:
                if line.startswith("VmHWM:"):
                    return int(line.split()[1]) * 1024
    except Exception:
        pass
    return None


def worker_env(extra=None):
    env = dict(os.environ)
    env["PYTHONPATH"] = ":".join([VERIF, os.path.join(VERIF, ".deps"), os.environ.get("GASOL_VERIF_REPO", "/repo")])
    env.setdefault("PYTHONHASHSEED", "0")
    env["PYTHONWARNINGS"] = "ignore"
    env["PYTHONDONTWRITEBYTECODE"] = "1"
    env["GASOL_VERIF"] = "1"
    if extra:
        env.update(extra)
    return env


class _W:
    def __init__(self, handler, env, stderr_path=None):
        self.handler = handler
        self.env = env
        self.stderr_path = stderr_path
        self.spawn()

    def spawn(self):
        r, w = os.pipe()
        self.rfd = r
        err = open(self.stderr_path, "ab") if self.stderr_path else subprocess.DEVNULL
        self.p = subprocess.Popen([PY, "-m", "vlib.worker", self.handler, str(w)], stdin=subprocess.PIPE,
                                  stdout=subprocess.DEVNULL, stderr=err, pass_fds=(w,), env=self.env,
                                  cwd=VERIF)
        os.close(w)
        if self.stderr_path:
            err.close()
        self.rf = os.fdopen(r, "rb", buffering=0)
        self.buf = b""
        self.case = None
        self.cpu0 = 0.0
        self.t0 = 0.0
        self.ncases = 0
        self.group = None

    def send(self, idx, case):
        self.case = (idx, case)
        self.cpu0 = _cpu(self.p.pid) or 0.0
        self.t0 = time.time()
        self.p.stdin.write((json.dumps(case) + "\n").encode())
        self.p.stdin.flush()

    def kill(self):
        try:
            self.p.kill()
        except Exception:
            pass
        try:
            self.p.wait(timeout=5)
        except Exception:
            pass
        try:
            self.rf.close()
        except Exception:
            pass
        try:
            self.p.stdin.close()
        except Exception:
            pass


def run_cases(handler, cases, nworkers=None, cpu_budget=20.0, rss_budget=None, wall_factor=10.0,
              env_extra=None, on_result=None, deadline=None, restart_every=0, stderr_path=None):
    """cases: iterable of JSON-able dicts; optional key '_cpu' overrides the budget.
    Yields nothing; calls on_result(idx, case, result) where result is the handler's
    dict, or {'_fail': 'cpu'|'wall'|'crash'|'rss', 'cpu':..,'rss':..}.
    Returns stats dict."""
    nworkers = nworkers or min(16, os.cpu_count() or 4)
    env = worker_env(env_extra)
    it = iter(enumerate(cases))
    workers = [_W(handler, env, stderr_path) for _ in range(nworkers)]
    sel = selectors.DefaultSelector()
    for w in workers:
        sel.register(w.rf, selectors.EVENT_READ, w)
    stats = {"cases": 0, "cpu_kills": 0, "wall_kills": 0, "crashes": 0, "rss_kills": 0,
             "max_cpu": 0.0, "max_rss": 0, "cpu_total": 0.0, "skipped_deadline": 0, "restarts": 0}
    exhausted = False

    def feed(w):
        nonlocal exhausted
        if exhausted:
            return False
        if deadline is not None and time.time() > deadline:
            exhausted = True
            for _ in it:
                stats["skipped_deadline"] += 1
            return False
        try:
            idx, case = next(it)
        except StopIteration:
            exhausted = True
            return False
        grp = case.get("_group") if isinstance(case, dict) else None
        if (restart_every and w.ncases >= restart_every) or (w.ncases and grp != w.group):
            stats["restarts"] += 1
            sel.unregister(w.rf)
            w.kill()
            w.spawn()
            sel.register(w.rf, selectors.EVENT_READ, w)
        w.ncases += 1
        w.group = grp
        try:
            w.send(idx, case)
        except Exception:
            # worker died between cases
            sel.unregister(w.rf)
            w.kill()
            w.spawn()
            sel.register(w.rf, selectors.EVENT_READ, w)
            w.send(idx, case)
        return True

    def restart(w):
        sel.unregister(w.rf)
        w.kill()
        w.spawn()
        sel.register(w.rf, selectors.EVENT_READ, w)

    def finish(w, result):
        idx, case = w.case
        w.case = None
        stats["cases"] += 1
        if on_result:
            on_result(idx, case, result)

    for w in workers:
        feed(w)
    last_check = time.time()
    while any(w.case is not None for w in workers):
        for key, _ in sel.select(timeout=0.1):
            w = key.data
            try:
                data = w.rf.read(1 << 16)
            except Exception:
                data = b""
            if not data:
                # EOF: crashed
                if w.case is not None:
                    c = _cpu(w.p.pid)
                    stats["crashes"] += 1
                    finish(w, {"_fail": "crash", "rc": w.p.poll()})
                restart(w)
                feed(w)
                continue
            w.buf += data
            while b"\n" in w.buf:
                line, w.buf = w.buf.split(b"\n", 1)
                if w.case is None:
                    continue
                try:
                    res = json.loads(line)
                except Exception:
                    res = {"_fail": "crash", "garbled": line[:200].decode("latin1")}
                c = _cpu(w.p.pid)
                if c is not None:
                    used = c - w.cpu0
                    stats["cpu_total"] += used
                    stats["max_cpu"] = max(stats["max_cpu"], used)
                    if isinstance(res, dict):
                        res["_cpu_s"] = round(used, 3)
                hw = _hwm(w.p.pid)
                if hw:
                    stats["max_rss"] = max(stats["max_rss"], hw)
                    if isinstance(res, dict):
                        res["_rss"] = hw
                finish(w, res)
                feed(w)
        now = time.time()
        if now - last_check > 0.25:
            last_check = now
            for w in workers:
                if w.case is None:
                    continue
                budget = w.case[1].get("_cpu", cpu_budget) if isinstance(w.case[1], dict) else cpu_budget
                c = _cpu(w.p.pid)
                used = (c - w.cpu0) if c is not None else 0.0
                hw = _hwm(w.p.pid) or 0
                why = None
                if used > budget:
                    why = "cpu"
                    stats["cpu_kills"] += 1
                elif rss_budget and hw > rss_budget:
                    why = "rss"
                    stats["rss_kills"] += 1
                elif now - w.t0 > max(30.0, wall_factor * budget):
                    why = "wall"
                    stats["wall_kills"] += 1
                if why:
                    stats["max_cpu"] = max(stats["max_cpu"], used)
                    stats["max_rss"] = max(stats["max_rss"], hw)
                    finish(w, {"_fail": why, "cpu": round(used, 2), "rss": hw})
                    restart(w)
                    feed(w)
    for w in workers:
        try:
            sel.unregister(w.rf)
        except Exception:
            pass
        w.kill()
    return stats
