"""Verdicts, known-findings matching, evidence and replay files.

known_findings.jsonl (committed, read-only at run time) holds one JSON object per line:
  {"property": "C01", "fingerprint": "<mechanism string or regex>", "match": "exact"|"regex",
   "what": "<human description>", "example": {...}}
  {"fixed": true, "property": "C03", "commit": "<sha>", "what": "..."}     (suppresses nothing)
"""
import json
import os
import re
import sys
import time

VERIF = os.path.dirname(os.path.dirname(os.path.abspath(__file__)))
KF_PATH = os.path.join(VERIF, "known_findings.jsonl")


def load_known(prop):
    out = []
    if not os.path.exists(KF_PATH):
        return out
    with open(KF_PATH) as f:
        for line in f:
            line = line.strip()
            if not line or line.startswith("#") or line.startswith("fixed:"):
                continue
            d = json.loads(line)
            if d.get("fixed"):
                continue
            if d.get("property") == prop:
                out.append(d)
    return out


def match_known(known, fingerprint):
    for k in known:
        if k.get("match", "exact") == "regex":
            if re.fullmatch(k["fingerprint"], fingerprint):
                return k
        elif k["fingerprint"] == fingerprint:
            return k
    return None


class Run:
    """Collects the outcome of one check run and renders verdict + evidence."""

    def __init__(self, prop, level="exploration"):
        self.prop = prop
        self.tier = os.environ.get("VERIF_TIER", "quick")
        self.seed = int(os.environ.get("VERIF_SEED", "0") or 0)
        self.level = level
        self.t0 = time.time()
        self.known = load_known(prop)
        self.violations = []      # (fingerprint, witness dict)
        self.known_hits = {}      # fingerprint -> [count, what, example]
        self.inconclusive = []    # reasons
        self.coverage = {}
        self.assumptions = []
        self.samples = []
        self.notes = []

    def witness(self, fingerprint, witness):
        """Report a property violation witness.  Classified against known findings."""
        k = match_known(self.known, fingerprint)
        if k is not None:
            e = self.known_hits.setdefault(k["fingerprint"], [0, k.get("what", ""), witness])
            e[0] += 1
            return False
        self.violations.append((fingerprint, witness))
        return True

    def add_sample(self, s, limit=6):
        if len(self.samples) < limit:
            self.samples.append(s)

    def finish(self, evaluations, distinct_nontrivial, rule, extra=None, explanation=None):
        wall = time.time() - self.t0
        cov = {"evaluations": int(evaluations), "distinct_nontrivial": int(distinct_nontrivial), "rule": rule,
               "samples": self.samples or ["(none)"]}
        if explanation:
            cov["explanation"] = explanation
        cov.update(self.coverage)
        if extra:
            cov.update(extra)
        cov["known_findings_hit"] = {fp: {"count": v[0], "what": v[1]} for fp, v in self.known_hits.items()}
        if self.inconclusive:
            cov["inconclusive_reasons"] = self.inconclusive[:20]
        # de-duplicate violations by fingerprint, keep first witness each
        seen = {}
        for fp, w in self.violations:
            seen.setdefault(fp, []).append(w)
        ev = {"property_id": self.prop, "tier": self.tier if self.tier in ("quick", "thorough") else "quick",
              "seed": self.seed, "level": self.level, "coverage": cov, "assumptions": self.assumptions,
              "wall_s": round(wall, 2), "violations": len(seen)}
        # runs against anything but /repo's own unchanged tree (seeded changes tried by tools/run_mutant.sh,
        # tools/try_mutant.sh, tools/mutant_matrix.sh) must not overwrite the evidence of the registered checks
        scratch = os.environ.get("VERIF_SCRATCH_EVIDENCE") or os.environ.get("GASOL_VERIF_REPO", "/repo") != "/repo"
        evdir = os.path.join(VERIF, ".scratch", "evidence") if scratch else os.path.join(VERIF, "evidence")
        os.makedirs(evdir, exist_ok=True)
        with open(os.path.join(evdir, self.prop + ".json"), "w") as f:
            json.dump(ev, f, indent=1, default=str)
        for fp, v in self.known_hits.items():
            print("KNOWN-FINDING: property=%s %s [%s] (seen %d times this run)" % (self.prop, v[1], fp, v[0]))
        rc = 0
        rdir = os.path.join(VERIF, "replays", self.prop)
        if os.path.isdir(rdir):
            for fn in os.listdir(rdir):
                if fn.startswith("w%d_" % self.seed):
                    os.unlink(os.path.join(rdir, fn))
        if seen:
            os.makedirs(rdir, exist_ok=True)
            for i, (fp, ws) in enumerate(seen.items()):
                path = os.path.join(rdir, "w%d_%03d.json" % (self.seed, i))
                with open(path, "w") as f:
                    json.dump({"property": self.prop, "fingerprint": fp, "count": len(ws), "witness": ws[0]}, f,
                              indent=1, default=str)
                print("VIOLATION property=%s replay=%s" % (self.prop, path))
                print("  fingerprint: %s" % fp)
            rc = 1
        elif self.inconclusive and not evaluations:
            rc = 2
        elif self.inconclusive and any(r.startswith("!") for r in self.inconclusive):
            rc = 2
        if rc == 2:
            print("INCONCLUSIVE property=%s %s" % (self.prop, "; ".join(self.inconclusive[:5])))
        print("%s: tier=%s seed=%d evaluations=%d distinct_nontrivial=%d violations=%d known=%d wall=%.1fs" % (
            self.prop, self.tier, self.seed, evaluations, distinct_nontrivial, len(seen),
            sum(v[0] for v in self.known_hits.values()), wall))
        return rc
