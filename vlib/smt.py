"""Minimal SMT-LIB 2 reader, evaluator and well-formedness checker (independent of the repository)."""


class ParseError(Exception):
    pass


def tokenize(text):
    toks = []
    i, n = 0, len(text)
    while i < n:
        c = text[i]
        if c in " \t\r\n":
            i += 1
        elif c == ";":
            while i < n and text[i] != "\n":
                i += 1
        elif c in "()":
            toks.append(c)
            i += 1
        elif c == "|":
            j = text.index("|", i + 1)
            toks.append(text[i:j + 1])
            i = j + 1
        elif c == '"':
            j = text.index('"', i + 1)
            toks.append(text[i:j + 1])
            i = j + 1
        else:
            j = i
            while j < n and text[j] not in " \t\r\n()":
                j += 1
            toks.append(text[i:j])
            i = j
    return toks


def parse_all(text):
    toks = tokenize(text)
    pos = 0

    def rd():
        nonlocal pos
        if pos >= len(toks):
            raise ParseError("unexpected end")
        t = toks[pos]
        pos += 1
        if t == "(":
            lst = []
            while True:
                if pos >= len(toks):
                    raise ParseError("missing )")
                if toks[pos] == ")":
                    pos += 1
                    return lst
                lst.append(rd())
        if t == ")":
            raise ParseError("unexpected )")
        return t
    out = []
    while pos < len(toks):
        out.append(rd())
    return out


def parse_one(text):
    r = parse_all(text)
    if len(r) != 1:
        raise ParseError("expected one s-expression, got %d" % len(r))
    return r[0]


def is_int_lit(t):
    return isinstance(t, str) and (t.isdigit() or (t.startswith("-") and t[1:].isdigit()))


class EvalError(Exception):
    pass


def evaluate(e, env, funs=None):
    """env: symbol -> python bool/int (sort-tagged by python type; bool and int are disjoint sorts).
    funs: name -> callable for uninterpreted functions."""
    if isinstance(e, str):
        if e == "true":
            return True
        if e == "false":
            return False
        if is_int_lit(e):
            return int(e)
        if e in env:
            return env[e]
        raise EvalError("unbound symbol " + e)
    if not e:
        raise EvalError("empty application")
    h = e[0]
    if isinstance(h, list):
        raise EvalError("higher-order head")
    if h == "-" and len(e) == 2:
        return -_int(evaluate(e[1], env, funs))
    args = [evaluate(a, env, funs) for a in e[1:]]
    if h == "and":
        return all(_bool(a) for a in args)
    if h == "or":
        return any(_bool(a) for a in args)
    if h == "not":
        if len(args) != 1:
            raise EvalError("not arity")
        return not _bool(args[0])
    if h == "=>":
        if len(args) < 2:
            raise EvalError("=> arity")
        r = _bool(args[-1])
        for a in reversed(args[:-1]):
            r = (not _bool(a)) or r
        return r
    if h == "=":
        if len(args) < 2:
            raise EvalError("= arity")
        for a, b in zip(args, args[1:]):
            if type(a) != type(b):
                raise EvalError("ill-sorted =")
        return all(a == b for a, b in zip(args, args[1:]))
    if h == "distinct":
        for a in args:
            if type(a) != type(args[0]):
                raise EvalError("ill-sorted distinct")
        return len(set(args)) == len(args)
    if h == "<":
        return all(_int(a) < _int(b) for a, b in zip(args, args[1:]))
    if h == "<=":
        return all(_int(a) <= _int(b) for a, b in zip(args, args[1:]))
    if h == ">":
        return all(_int(a) > _int(b) for a, b in zip(args, args[1:]))
    if h == ">=":
        return all(_int(a) >= _int(b) for a, b in zip(args, args[1:]))
    if h == "+":
        return sum(_int(a) for a in args)
    if h == "-":
        r = _int(args[0])
        for a in args[1:]:
            r -= _int(a)
        return r
    if h == "*":
        r = 1
        for a in args:
            r *= _int(a)
        return r
    if h == "ite":
        return args[1] if _bool(args[0]) else args[2]
    if funs and h in funs:
        return funs[h](*args)
    raise EvalError("unknown operator " + str(h))


def _bool(x):
    if type(x) is not bool:
        raise EvalError("expected Bool")
    return x


def _int(x):
    if type(x) is not int:
        raise EvalError("expected Int")
    return x


# ------------------------------------------------------------------ well-formedness of a script
BUILTIN = {"and": None, "or": None, "not": None, "=>": None, "=": None, "distinct": None, "<": None, "<=": None,
           ">": None, ">=": None, "+": None, "-": None, "*": None, "ite": None, "true": None, "false": None}


def check_script(text):
    """Returns (problems:list[str], info:dict).  Every symbol must be declared once and used at its
    declared arity and sort."""
    problems = []
    try:
        cmds = parse_all(text)
    except Exception as e:
        return ["unparsable script: %s" % e], {}
    sorts = {"Int", "Bool"}
    decl = {}
    n_assert = n_soft = 0

    def sort_of(e):
        if isinstance(e, str):
            if e in ("true", "false"):
                return "Bool"
            if is_int_lit(e):
                return "Int"
            if e in decl:
                dom, rng = decl[e]
                if dom:
                    problems.append("function %s used as constant" % e)
                return rng
            problems.append("undeclared symbol %s" % e)
            return None
        if not e:
            problems.append("empty application")
            return None
        h = e[0]
        if isinstance(h, list):
            problems.append("bad head")
            return None
        args = [sort_of(a) for a in e[1:]]
        if h in ("and", "or", "=>"):
            for a in args:
                if a not in ("Bool", None):
                    problems.append("%s applied to %s" % (h, a))
            if not args:
                problems.append("%s without arguments" % h)
            return "Bool"
        if h == "not":
            if len(args) != 1 or args[0] not in ("Bool", None):
                problems.append("not applied to %s" % args)
            return "Bool"
        if h in ("=", "distinct"):
            known = [a for a in args if a]
            if len(args) < 2 and h == "=":
                problems.append("= with %d arguments" % len(args))
            if known and any(a != known[0] for a in known):
                problems.append("%s over different sorts %s" % (h, sorted(set(known))))
            return "Bool"
        if h in ("<", "<=", ">", ">="):
            for a in args:
                if a not in ("Int", None):
                    problems.append("%s applied to %s" % (h, a))
            if len(args) < 2:
                problems.append("%s arity" % h)
            return "Bool"
        if h in ("+", "-", "*"):
            for a in args:
                if a not in ("Int", None):
                    problems.append("%s applied to %s" % (h, a))
            return "Int"
        if h == "ite":
            if len(args) != 3:
                problems.append("ite arity")
                return None
            if args[0] not in ("Bool", None):
                problems.append("ite condition %s" % args[0])
            if args[1] and args[2] and args[1] != args[2]:
                problems.append("ite branches %s/%s" % (args[1], args[2]))
            return args[1] or args[2]
        if h in decl:
            dom, rng = decl[h]
            if len(dom) != len(args):
                problems.append("%s used with %d arguments, declared %d" % (h, len(args), len(dom)))
            else:
                for i, (d, a) in enumerate(zip(dom, args)):
                    if a and d != a:
                        problems.append("%s argument %d has sort %s, declared %s" % (h, i, a, d))
            return rng
        problems.append("undeclared symbol %s" % h)
        return None

    soft_ids = set()
    for c in cmds:
        if isinstance(c, list) and c and c[0] == "assert-soft" and ":id" in c:
            soft_ids.add(c[c.index(":id") + 1])
    for c in cmds:
        if not isinstance(c, list) or not c:
            problems.append("stray token %r" % (c,))
            continue
        k = c[0]
        if k == "declare-sort":
            if c[1] in sorts:
                problems.append("sort %s declared twice" % c[1])
            sorts.add(c[1])
        elif k in ("declare-fun", "declare-const"):
            name = c[1]
            dom = c[2] if k == "declare-fun" else []
            rng = c[3] if k == "declare-fun" else c[2]
            if name in decl or name in BUILTIN:
                problems.append("symbol %s declared twice" % name)
            for s in list(dom) + [rng]:
                if s not in sorts:
                    problems.append("unknown sort %s in declaration of %s" % (s, name))
            decl[name] = (list(dom), rng)
        elif k == "define-fun":
            name = c[1]
            if name in decl:
                problems.append("symbol %s declared twice" % name)
            decl[name] = ([p[1] for p in c[2]], c[3])
        elif k == "assert":
            n_assert += 1
            s = sort_of(c[1])
            if s not in ("Bool", None):
                problems.append("assert of sort %s" % s)
        elif k == "assert-soft":
            n_soft += 1
            s = sort_of(c[1])
            if s not in ("Bool", None):
                problems.append("assert-soft of sort %s" % s)
        elif k in ("minimize", "maximize"):
            if isinstance(c[1], str) and c[1] in soft_ids:
                continue            # OptiMathSAT: the objective named by the :id of the soft constraints
            s = sort_of(c[1])
            if s not in ("Int", None):
                problems.append("%s of sort %s" % (k, s))
    return problems, {"declared": len(decl), "asserts": n_assert, "soft": n_soft, "decl": decl, "sorts": sorts,
                      "commands": cmds}
