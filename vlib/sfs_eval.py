"""Independent evaluator / checker for stack-functional specifications (SFS JSON dictionaries).

Input is the JSON dictionary only; no repository module is imported.
Conventions (established by probes, DESIGN 4.1): src_ws / tgt_ws / inpt_sk are top-of-stack
first; dependency pairs are [before, after] instruction ids; stores have outpt_sk == [] and
"storage": true.
"""
import hashlib
import random

from . import opsem, evm
from .opsem import MASK

LOADS = {"MLOAD", "SLOAD", "KECCAK256", "SHA3"}
STORES = {"MSTORE", "MSTORE8", "SSTORE"}
PSEUDO = evm.PSEUDO_PUSH


class SpecError(Exception):
    pass


def as_int(x):
    if isinstance(x, bool):
        return None
    if isinstance(x, int):
        return x
    if isinstance(x, str):
        try:
            return int(x)
        except ValueError:
            return None
    return None


def is_state_op(ins):
    d = ins["disasm"]
    return d in LOADS or d in STORES or ins.get("storage") or d.startswith("ASSIGNIMMUTABLE")


def defs_map(S):
    m = {}
    for ins in S["user_instrs"]:
        for o in ins.get("outpt_sk", []):
            m[o] = ins
    return m


def by_id(S):
    return {ins["id"]: ins for ins in S["user_instrs"]}


def dep_pairs(S):
    pairs = set()
    for key in ("dependencies", "storage_dependences", "memory_dependences"):
        for p in S.get(key, []) or []:
            pairs.add((p[0], p[1]))
    return pairs


def state_ops(S):
    return [ins for ins in S["user_instrs"] if is_state_op(ins)]


def dataflow_preds(S):
    """id -> set of state-op ids whose output feeds (through pure terms) an input of id"""
    dm = defs_map(S)
    memo = {}

    def loads_of(var):
        if var in memo:
            return memo[var]
        memo[var] = set()
        ins = dm.get(var)
        r = set()
        if ins is not None:
            if is_state_op(ins):
                r.add(ins["id"])
            else:
                for a in ins.get("inpt_sk", []):
                    if isinstance(a, str):
                        r |= loads_of(a)
        memo[var] = r
        return r

    preds = {}
    for ins in state_ops(S):
        p = set()
        for a in ins.get("inpt_sk", []):
            if isinstance(a, str):
                p |= loads_of(a)
        p.discard(ins["id"])
        preds[ins["id"]] = p
    return preds


def linearizations(S, rnd=None, limit=200, n_random=200):
    """Topological orders of the state-touching instructions under declared dependencies and
    producer-before-consumer.  Returns (list of orders, exhaustive flag)."""
    ops = [i["id"] for i in state_ops(S)]
    if not ops:
        return [[]], True
    preds = {k: set(v) for k, v in dataflow_preds(S).items()}
    for a, b in dep_pairs(S):
        if a in preds and b in preds:
            preds[b].add(a)
    # exhaustive enumeration with cap
    orders = []
    capped = False

    def rec(done, done_set):
        nonlocal capped
        if capped:
            return
        if len(done) == len(ops):
            orders.append(list(done))
            if len(orders) > limit:
                capped = True
            return
        for o in ops:
            if o not in done_set and preds[o] <= done_set:
                done.append(o)
                done_set.add(o)
                rec(done, done_set)
                done.pop()
                done_set.discard(o)
                if capped:
                    return
    rec([], set())
    if not capped:
        if not orders:
            raise SpecError("cyclic ordering constraints")
        return orders, True
    # sampled: extremes + random topological orders
    rnd = rnd or random.Random(0)
    out = []
    seen = set()

    def topo(pick):
        done, ds = [], set()
        while len(done) < len(ops):
            ready = [o for o in ops if o not in ds and preds[o] <= ds]
            if not ready:
                raise SpecError("cyclic ordering constraints")
            o = pick(ready)
            done.append(o)
            ds.add(o)
        return done
    by = by_id(S)
    isload = lambda o: by[o]["disasm"] in LOADS
    cands = [topo(lambda r: r[0]), topo(lambda r: r[-1]),
             topo(lambda r: ([o for o in r if isload(o)] or r)[0]),
             topo(lambda r: ([o for o in r if not isload(o)] or r)[0])]
    for _ in range(n_random):
        cands.append(topo(lambda r: rnd.choice(r)))
    for c in cands:
        t = tuple(c)
        if t not in seen:
            seen.add(t)
            out.append(c)
    return out, False


def pseudo_word_of(ins):
    d = ins["disasm"]
    v = ins.get("value")
    if d in ("PUSHSIZE", "PUSHDEPLOYADDRESS") or not v:
        return evm.pseudo_word(d, None)
    x = v[0]
    if d == "PUSH [tag]":
        k = as_int(x)
        return evm.pseudo_word(d, k if k is not None else str(x))
    if d == "PUSHLIB":
        return evm.pseudo_word(d, str(x))
    k = as_int(x)
    return evm.pseudo_word(d, k if k is not None else str(x))


def eval_spec(S, order, state):
    """Evaluate specification S on concrete state with state-ops executed in `order`.
    Returns (final stack top-first, mem writes differing from initial, storage writes)."""
    m = evm.Machine(state)
    env = {}
    src = S["src_ws"]
    if len(state.stack) < len(src):
        raise SpecError("state too shallow")
    for i, v in enumerate(src):
        env[v] = state.stack[i]
    dm = defs_map(S)
    ids = by_id(S)
    executed = {}

    def val(x):
        k = as_int(x)
        if k is not None and not (isinstance(x, str) and x in dm):
            return k          # out-of-range constants are reported where they are used
        if x in env:
            return env[x]
        ins = dm.get(x)
        if ins is None:
            raise SpecError("undefined variable %r" % (x,))
        if is_state_op(ins):
            if ins["id"] not in executed:
                raise SpecError("load %s used before it is executed" % ins["id"])
            return env[x]
        r = pure(ins)
        env[x] = r
        return r

    def pure(ins):
        d = ins["disasm"]
        args = [val(a) for a in ins.get("inpt_sk", [])]
        if d == "PUSH":
            v = as_int(ins["value"][0])
            if v is None or v < 0 or v > MASK:
                raise SpecError("PUSH value out of range: %r" % (ins["value"],))
            return v
        if d == "PUSH0":
            return 0
        if d in PSEUDO:
            return pseudo_word_of(ins)
        if d in opsem.OPS:
            for a in args:
                if not (0 <= a <= MASK):
                    raise SpecError("operand out of range for %s: %r" % (d, a))
            return opsem.apply(d, args)
        if d in evm.ENV0 or d in evm.ENV1:
            return m.env(d, *args)
        if d == "POP":
            return 0
        # any other uninterpreted, state-independent instruction
        return evm.prf_word("uf", state.seed, d, *args)

    def execute(ins):
        d = ins["disasm"]
        args = [val(a) for a in ins.get("inpt_sk", [])]
        for a in args:
            if not (0 <= a <= MASK):
                raise SpecError("operand out of range for %s: %r" % (d, a))
        if d == "MLOAD":
            env[ins["outpt_sk"][0]] = int.from_bytes(m.mread(args[0], 32), "big")
        elif d == "SLOAD":
            env[ins["outpt_sk"][0]] = m.sread(args[0])
        elif d in ("KECCAK256", "SHA3"):
            if args[0] > evm.MEM_LIMIT or args[1] > evm.MEM_LIMIT:
                raise evm.OOG()
            env[ins["outpt_sk"][0]] = int.from_bytes(hashlib.sha3_256(m.mread(args[0], args[1])).digest(), "big")
        elif d == "MSTORE":
            m.mwrite(args[0], args[1].to_bytes(32, "big"))
        elif d == "MSTORE8":
            m.mwrite(args[0], bytes([args[1] & 0xFF]))
        elif d == "SSTORE":
            m.stow[args[0]] = args[1]
            m.sto_final[(0, args[0])] = args[1]
        elif d.startswith("ASSIGNIMMUTABLE"):
            m.trace.append(("ASSIGNIMMUTABLE", args[0], args[1]))
        else:
            raise SpecError("unknown state op " + d)
        executed[ins["id"]] = True

    for oid in order:
        execute(ids[oid])
    final = [val(x) for x in S["tgt_ws"]]
    for x in final:
        if not (0 <= x <= MASK):
            raise SpecError("target stack word out of range")
    mem = {a: b for a, b in m.memw.items() if b != m._init_byte(a)}
    return final, mem, dict(m.sto_final), m.trace


# ---------------------------------------------------------------- id-sequence checker
def realizes(S, ids, check_len=False, check_height=False):
    """Symbolic execution of an id sequence from src_ws over SFS variable names.
    Returns None if `ids` realizes S, else a short reason string."""
    byid = by_id(S)
    st = list(S["src_ws"])
    count = {}
    peak = len(st)
    pos = {}
    n_real = 0

    def same(a, b):
        ka, kb = as_int(a), as_int(b)
        if ka is not None or kb is not None:
            return ka is not None and kb is not None and ka == kb
        return a == b

    for p, iid in enumerate(ids):
        if iid == "NOP":
            continue
        n_real += 1
        ins = byid.get(iid)
        if ins is None:
            if iid.startswith("DUP") and iid[3:].isdigit():
                k = int(iid[3:])
                if not 1 <= k <= 16:
                    return "dup-depth %s" % iid
                if len(st) < k:
                    return "underflow at %d (%s)" % (p, iid)
                st.insert(0, st[k - 1])
            elif iid.startswith("SWAP") and iid[4:].isdigit():
                k = int(iid[4:])
                if not 1 <= k <= 16:
                    return "swap-depth %s" % iid
                if len(st) < k + 1:
                    return "underflow at %d (%s)" % (p, iid)
                st[0], st[k] = st[k], st[0]
            elif iid == "POP":
                if not st:
                    return "underflow at %d (POP)" % p
                st.pop(0)
            elif iid.startswith("PUSH") and " " in iid:
                # push-basic: literal push
                try:
                    st.insert(0, int(iid.split(" ")[1], 16))
                except ValueError:
                    return "unknown id %s" % iid
            else:
                return "unknown id %s" % iid
        else:
            inp = ins.get("inpt_sk", [])
            if len(st) < len(inp):
                return "underflow at %d (%s)" % (p, iid)
            got = st[:len(inp)]
            ok = all(same(a, b) for a, b in zip(got, inp))
            if not ok and ins.get("commutative") and len(inp) == 2:
                ok = same(got[0], inp[1]) and same(got[1], inp[0])
            if not ok:
                return "wrong-operands %s got %s want %s" % (iid, got, inp)
            del st[:len(inp)]
            for o in reversed(ins.get("outpt_sk", [])):
                st.insert(0, o)
            count[iid] = count.get(iid, 0) + 1
            pos.setdefault(iid, []).append(p)
        peak = max(peak, len(st))
    for ins in S["user_instrs"]:
        if ins.get("storage"):
            c = count.get(ins["id"], 0)
            if c != 1:
                return "store %s executed %d times" % (ins["id"], c)
    for a, b in dep_pairs(S):
        if a in pos and b in pos:
            if max(pos[a]) > min(pos[b]):
                return "dependency %s->%s not respected" % (a, b)
        elif a in byid and b in byid and byid[a].get("storage") and b in pos and a not in pos:
            return "dependency %s->%s: first never executed" % (a, b)
    tgt = S["tgt_ws"]
    if len(st) != len(tgt) or not all(same(a, b) for a, b in zip(st, tgt)):
        return "final-stack %s want %s" % (st[:8], tgt[:8])
    if check_len and n_real > S["init_progr_len"]:
        return "length %d > init_progr_len %d" % (n_real, S["init_progr_len"])
    if check_height and peak > S["max_sk_sz"]:
        return "height %d > max_sk_sz %d" % (peak, S["max_sk_sz"])
    return None


def ids_to_block(S, ids):
    """Our own rendering of an id sequence as (name,value) pairs (for concrete execution)."""
    byid = by_id(S)
    out = []
    for iid in ids:
        if iid == "NOP":
            continue
        ins = byid.get(iid)
        if ins is None:
            if iid.startswith("PUSH") and " " in iid:
                out.append(("PUSH", iid.split(" ")[1]))
            else:
                out.append((iid, None))
            continue
        d = ins["disasm"]
        if d == "PUSH":
            out.append(("PUSH", "%x" % int(ins["value"][0])))
        elif d == "PUSH0":
            out.append(("PUSH0", None))
        elif d in PSEUDO:
            out.append(("__pseudo__", ins))
        else:
            out.append((d, None))
    return out


# ---------------------------------------------------------------- bounded synthesizer
class Budget(Exception):
    pass


def synthesize(S, bound, max_height=None, node_budget=300000, all_min=False, on_solution=None):
    """Iterative-deepening search for a realizing id sequence of length <= bound (peak height <=
    max_height).  Complete up to the bound unless the node budget is exhausted (raises Budget).
    Returns the shortest realizing sequence found, or None if none exists within the bound."""
    byid = by_id(S)
    instrs = S["user_instrs"]
    tgt = list(S["tgt_ws"])
    src = list(S["src_ws"])
    deps = dep_pairs(S)
    stores = [i["id"] for i in instrs if i.get("storage")]
    before = {}
    for a, b in deps:
        before.setdefault(b, set()).add(a)
    after = {}
    for a, b in deps:
        after.setdefault(a, set()).add(b)
    # how often each variable is needed at most (for pruning DUPs)
    uses = {}
    for v in tgt:
        uses[v] = uses.get(v, 0) + 1
    for i in instrs:
        for v in i.get("inpt_sk", []):
            if isinstance(v, str):
                uses[v] = uses.get(v, 0) + 1
    producers = {}
    for i in instrs:
        for o in i.get("outpt_sk", []):
            producers[o] = i
    nodes = [0]
    if max_height is None:
        max_height = 1024

    def same(a, b):
        ka, kb = as_int(a), as_int(b)
        if ka is not None or kb is not None:
            return ka is not None and kb is not None and ka == kb
        return a == b

    def applicable(ins, st):
        inp = ins.get("inpt_sk", [])
        if len(st) < len(inp):
            return False
        got = st[:len(inp)]
        if all(same(a, b) for a, b in zip(got, inp)):
            return True
        if ins.get("commutative") and len(inp) == 2 and same(got[0], inp[1]) and same(got[1], inp[0]):
            return True
        return False

    def lower_bound(st, done_stores, computed):
        # stores still to execute + needed values never produced so far
        lb = sum(1 for s in stores if s not in done_stores)
        need = set()
        stack_set = set(st)

        def req(v, seen):
            if v in seen or as_int(v) is not None:
                return
            seen.add(v)
            if v in stack_set:
                return
            p = producers.get(v)
            if p is None:
                return
            need.add(p["id"])
            for a in p.get("inpt_sk", []):
                req(a, seen)
        seen = set()
        for v in tgt:
            req(v, seen)
        for s in stores:
            if s not in done_stores:
                for a in byid[s].get("inpt_sk", []):
                    req(a, seen)
        lb += len(need)
        if len(st) > len(tgt) + sum(1 for s in stores if s not in done_stores) * 2 + 3 * len(need):
            lb += 1
        return lb

    best = [None]

    def dfs(st, done_stores, executed, seq, limit, last):
        nodes[0] += 1
        if nodes[0] > node_budget:
            raise Budget()
        if len(st) == len(tgt) and all(same(a, b) for a, b in zip(st, tgt)) and len(done_stores) == len(stores):
            best[0] = list(seq)
            if on_solution is not None:
                on_solution(list(seq))
                return False        # keep enumerating; extending a finished program never makes it cheaper
            return True
        if len(seq) >= limit:
            return False
        if len(seq) + lower_bound(st, done_stores, executed) > limit:
            return False
        # instructions
        for ins in instrs:
            iid = ins["id"]
            if ins.get("storage") and iid in done_stores:
                continue
            if not applicable(ins, st):
                continue
            # dependencies: everything that must precede must have been executed (at least once)
            pre = before.get(iid, ())
            if any((p not in executed) for p in pre):
                continue
            # executing iid again after something that must follow it is not allowed
            if any((a in executed) for a in after.get(iid, ())):
                continue
            out = ins.get("outpt_sk", [])
            if out and uses.get(out[0], 0) == 0:
                continue
            n = len(ins.get("inpt_sk", []))
            st2 = list(out) + st[n:]
            if len(st2) > max_height:
                continue
            ds = done_stores | {iid} if ins.get("storage") else done_stores
            seq.append(iid)
            if dfs(st2, ds, executed | {iid}, seq, limit, iid):
                return True
            seq.pop()
        # stack operations
        h = len(st)
        for k in range(1, min(16, h) + 1):
            v = st[k - 1]
            if uses.get(v, 0) == 0 or st.count(v) > uses.get(v, 0):
                continue            # a value nobody needs, or of which a surplus copy already exists, is never duplicated
            # (one surplus copy is allowed: DUPk ... POP can be cheaper than the SWAPs that bring a deep value up,
            #  e.g. KECCAK256_0 DUP3 MSTORE8_0 POP POP = 40 gas against KECCAK256_0 SWAP1 SWAP2 MSTORE8_0 POP = 41)
            if h + 1 > max_height:
                break
            seq.append("DUP%d" % k)
            if dfs([v] + st, done_stores, executed, seq, limit, "DUP"):
                return True
            seq.pop()
        for k in range(1, min(16, h - 1) + 1):
            if last == "SWAP%d" % k:
                continue
            if st[0] == st[k]:
                continue
            st2 = list(st)
            st2[0], st2[k] = st2[k], st2[0]
            seq.append("SWAP%d" % k)
            if dfs(st2, done_stores, executed, seq, limit, "SWAP%d" % k):
                return True
            seq.pop()
        if h and last != "DUP":
            seq.append("POP")
            if dfs(st[1:], done_stores, executed, seq, limit, "POP"):
                return True
            seq.pop()
        return False

    if on_solution is not None:
        # complete enumeration of the realizing sequences of length <= bound (modulo never-useful moves)
        dfs(list(src), frozenset(), frozenset(), [], bound, None)
        return best[0]
    for limit in range(0, bound + 1):
        if dfs(list(src), frozenset(), frozenset(), [], limit, None):
            return best[0]
    return None


def sequence_cost(S, ids, criterion, avals=None):
    """true cost of an id sequence: the specification's own per-instruction gas/size fields for the
    instructions it defines, the EVM constants for DUP/SWAP/POP, nothing for NOP"""
    byid = by_id(S)
    c = 0
    for j, iid in enumerate(ids):
        if iid == "NOP":
            continue
        ins = byid.get(iid)
        if criterion == "length":
            c += 1
        elif criterion == "gas":
            if ins is not None:
                c += ins["gas"]
            elif iid == "POP":
                c += 2
            else:
                c += 3
        else:
            if ins is not None:
                c += ins["size"]
            elif iid.startswith("PUSH"):
                v = int(iid.split(" ")[1], 16) if " " in iid else 0
                c += 1 + max(1, (v.bit_length() + 7) // 8)
            else:
                c += 1
    return c
