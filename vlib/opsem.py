"""256-bit EVM operator semantics (written from the Yellow Paper / EIP-145, -1014).

Independent of every repository module.  Operands are Python ints in [0, 2**256);
operand order is *stack order*: args[0] is the value on top of the stack
(first popped).
"""
M = 1 << 256
MASK = M - 1
SIGN = 1 << 255


def s2(x):
    """unsigned word -> signed integer"""
    return x - M if x & SIGN else x


def u2(x):
    return x & MASK


def _div(a, b):
    return 0 if b == 0 else a // b


def _sdiv(a, b):
    if b == 0:
        return 0
    sa, sb = s2(a), s2(b)
    q = abs(sa) // abs(sb)
    if (sa < 0) != (sb < 0):
        q = -q
    return u2(q)


def _mod(a, b):
    return 0 if b == 0 else a % b


def _smod(a, b):
    if b == 0:
        return 0
    sa, sb = s2(a), s2(b)
    r = abs(sa) % abs(sb)
    if sa < 0:
        r = -r
    return u2(r)


def _addmod(a, b, n):
    return 0 if n == 0 else (a + b) % n


def _mulmod(a, b, n):
    return 0 if n == 0 else (a * b) % n


def _exp(a, b):
    return pow(a, b, M)


def _signextend(b, x):
    if b >= 31:
        return x
    bit = 8 * b + 7
    mask = (1 << (bit + 1)) - 1
    if x & (1 << bit):
        return u2(x | (MASK ^ mask))
    return x & mask


def _byte(i, x):
    if i >= 32:
        return 0
    return (x >> (8 * (31 - i))) & 0xFF


def _shl(sh, v):
    return 0 if sh >= 256 else (v << sh) & MASK


def _shr(sh, v):
    return 0 if sh >= 256 else v >> sh


def _sar(sh, v):
    sv = s2(v)
    if sh >= 256:
        return MASK if sv < 0 else 0
    return u2(sv >> sh)


OPS = {
    "ADD": (2, lambda a, b: (a + b) & MASK),
    "MUL": (2, lambda a, b: (a * b) & MASK),
    "SUB": (2, lambda a, b: (a - b) & MASK),
    "DIV": (2, _div),
    "SDIV": (2, _sdiv),
    "MOD": (2, _mod),
    "SMOD": (2, _smod),
    "ADDMOD": (3, _addmod),
    "MULMOD": (3, _mulmod),
    "EXP": (2, _exp),
    "SIGNEXTEND": (2, _signextend),
    "LT": (2, lambda a, b: int(a < b)),
    "GT": (2, lambda a, b: int(a > b)),
    "SLT": (2, lambda a, b: int(s2(a) < s2(b))),
    "SGT": (2, lambda a, b: int(s2(a) > s2(b))),
    "EQ": (2, lambda a, b: int(a == b)),
    "ISZERO": (1, lambda a: int(a == 0)),
    "AND": (2, lambda a, b: a & b),
    "OR": (2, lambda a, b: a | b),
    "XOR": (2, lambda a, b: a ^ b),
    "NOT": (1, lambda a: a ^ MASK),
    "BYTE": (2, _byte),
    "SHL": (2, _shl),
    "SHR": (2, _shr),
    "SAR": (2, _sar),
}

COMMUTATIVE = {"ADD", "MUL", "AND", "OR", "XOR", "EQ"}


def apply(op, args):
    ar, f = OPS[op]
    assert len(args) == ar, (op, args)
    r = f(*args)
    assert 0 <= r < M
    return r


# ---------------------------------------------------------------- boundary pool
BOUNDARY = [0, 1, 2, 3, 31, 32, 33, 63, 64, 255, 256, 257,
            (1 << 160) - 1, 1 << 160, SIGN - 1, SIGN, SIGN + 1, MASK - 1, MASK]


def selftest(n_random=2000, seed=0):
    """Cross-check every operator against z3 bit-vector semantics.
    Returns (checked, mismatches:list).  z3 is optional: returns (0, None) if absent."""
    try:
        import z3
    except Exception:
        return 0, None
    import random
    rnd = random.Random(seed)

    def bv(x):
        return z3.BitVecVal(x, 256)

    def z_signext(b, x):
        # EVM SIGNEXTEND via shifts on 256-bit vectors
        if b >= 31:
            return bv(x)
        sh = 256 - 8 * (b + 1)
        return (bv(x) << sh) >> sh  # >> on BitVecRef is arithmetic

    def zbool(c):
        return z3.If(c, bv(1), bv(0))

    Z = {
        "ADD": lambda a, b: bv(a) + bv(b),
        "MUL": lambda a, b: bv(a) * bv(b),
        "SUB": lambda a, b: bv(a) - bv(b),
        "DIV": lambda a, b: z3.If(bv(b) == 0, bv(0), z3.UDiv(bv(a), bv(b))),
        "SDIV": lambda a, b: z3.If(bv(b) == 0, bv(0), bv(a) / bv(b)),
        "MOD": lambda a, b: z3.If(bv(b) == 0, bv(0), z3.URem(bv(a), bv(b))),
        "SMOD": lambda a, b: z3.If(bv(b) == 0, bv(0), z3.SRem(bv(a), bv(b))),
        "LT": lambda a, b: zbool(z3.ULT(bv(a), bv(b))),
        "GT": lambda a, b: zbool(z3.UGT(bv(a), bv(b))),
        "SLT": lambda a, b: zbool(bv(a) < bv(b)),
        "SGT": lambda a, b: zbool(bv(a) > bv(b)),
        "EQ": lambda a, b: zbool(bv(a) == bv(b)),
        "ISZERO": lambda a: zbool(bv(a) == 0),
        "AND": lambda a, b: bv(a) & bv(b),
        "OR": lambda a, b: bv(a) | bv(b),
        "XOR": lambda a, b: bv(a) ^ bv(b),
        "NOT": lambda a: ~bv(a),
        "SHL": lambda s, v: z3.If(z3.UGE(bv(s), 256), bv(0), bv(v) << bv(s)),
        "SHR": lambda s, v: z3.If(z3.UGE(bv(s), 256), bv(0), z3.LShR(bv(v), bv(s))),
        "SAR": lambda s, v: z3.If(z3.UGE(bv(s), 256), z3.If(bv(v) < 0, bv(MASK), bv(0)), bv(v) >> bv(s)),
        "SIGNEXTEND": z_signext,
        "BYTE": lambda i, x: z3.If(z3.UGE(bv(i), 32), bv(0),
                                   z3.LShR(bv(x), (bv(31) - bv(i)) * 8) & 0xFF),
        "ADDMOD": lambda a, b, n: bv(0) if n == 0 else z3.Extract(
            255, 0, z3.URem(z3.ZeroExt(8, bv(a)) + z3.ZeroExt(8, bv(b)), z3.ZeroExt(8, bv(n)))),
        "MULMOD": lambda a, b, n: bv(0) if n == 0 else z3.Extract(
            255, 0, z3.URem(z3.ZeroExt(256, bv(a)) * z3.ZeroExt(256, bv(b)), z3.ZeroExt(256, bv(n)))),
    }
    bad = []
    checked = 0
    pool = BOUNDARY
    for op, (ar, f) in OPS.items():
        if op == "EXP":
            # square-and-multiply reference
            for _ in range(60):
                a = rnd.choice(pool + [rnd.getrandbits(256)])
                b = rnd.choice([0, 1, 2, 3, 255, 256, 257, rnd.getrandbits(9), MASK, rnd.getrandbits(256)])
                r, base, e = 1, a, b
                while e:
                    if e & 1:
                        r = (r * base) & MASK
                    base = (base * base) & MASK
                    e >>= 1
                checked += 1
                if r != f(a, b):
                    bad.append((op, a, b))
            continue
        tuples = []
        if ar == 1:
            tuples = [(a,) for a in pool]
        elif ar == 2:
            tuples = [(a, b) for a in pool for b in pool]
        else:
            tuples = [(a, b, c) for a in pool[::2] for b in pool[::2] for c in pool[::3]]
        per = max(1, n_random // len(OPS))
        for _ in range(per):
            t = tuple(rnd.choice([rnd.getrandbits(256), rnd.getrandbits(8), rnd.choice(pool)]) for _ in range(ar))
            tuples.append(t)
        for t in tuples:
            want = z3.simplify(Z[op](*t)).as_long()
            checked += 1
            if want != f(*t):
                bad.append((op,) + t)
    return checked, bad


if __name__ == "__main__":
    import sys
    n, bad = selftest()
    print("opsem selftest: checked", n, "mismatches", bad if bad is None else len(bad))
    if bad:
        print(bad[:5])
        sys.exit(1)
