#!/bin/bash
# tools/thorough.sh "<checks>" [seed] : runs the thorough tier of the given checks, one line each
cd "$(dirname "$0")/.."
for p in $1; do
  t0=$(date +%s)
  out=$(VERIF_SEED=${2:-0} ./check $p --tier thorough 2>&1); rc=$?
  echo "thorough $p rc=$rc $(( $(date +%s) - t0 ))s $(echo "$out" | grep -v KNOWN-FINDING | grep 'VIOLATION\|fingerprint\|INCONCLUSIVE' | head -8 | tr '\n' ' ' | cut -c1-600)"
  echo "$out" | grep "tier=" | tail -1
done
