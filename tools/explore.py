"""exploratory runner: tools/explore.py <handler> <N> <seed> [kinds]"""
import sys, os, random, json, collections, tempfile, shutil, time
sys.path.insert(0, os.path.dirname(os.path.dirname(os.path.abspath(__file__))))
from vlib import pool, gen, evm
handler=sys.argv[1]; N=int(sys.argv[2]); seed=int(sys.argv[3]) if len(sys.argv)>3 else 0
kinds=sys.argv[4].split(",") if len(sys.argv)>4 else None
opts_sets=[["-greedy"],["-greedy","-storage"],["-greedy","-partition"],["-greedy","-size"],["-greedy","-length"],["-greedy","-no-simplification"],["-greedy","-push0"]]
rnd=random.Random(seed)
cases=[]
for i in range(N):
    b,k=gen.gen_block(rnd, rnd.choice(kinds) if kinds else None)
    o=opts_sets[i%len(opts_sets)]
    cases.append({"block":b,"opts":o,"sseed":rnd.getrandbits(30),"kind":k,"_group":" ".join(o)})
cases.sort(key=lambda c:c["_group"])
scratch=tempfile.mkdtemp(prefix="gv_")
fps=collections.Counter(); ex={}; stat=collections.Counter(); fails=[]; fired=collections.Counter(); counts=collections.Counter()
def on(idx,case,res):
    if "_fail" in res: stat["fail_"+res["_fail"]]+=1; fails.append((res,case)); return
    if "_handler_exception" in res: stat["hexc"]+=1; fails.append((res,case)); return
    stat["changed"]+=bool(res.get("changed",False)); stat["exc"]+=bool(res.get("exc")); stat["eqfalse"]+=res.get("eq_false",0) or 0
    for k,v in (res.get("fired") or {}).items(): fired[k]+=v
    for k,v in (res.get("counts") or {}).items():
        if isinstance(v,int): counts[k]+=v
        else: counts[k+"="+str(v)]+=1
    for v in res.get("viols",[]):
        fps[v["fingerprint"]]+=1; ex.setdefault(v["fingerprint"],(v["witness"],case))
t=time.time()
st=pool.run_cases(handler,cases,cpu_budget=float(os.environ.get("CPU","10")),env_extra={"GASOL_VERIF_SCRATCH":scratch},on_result=on)
shutil.rmtree(scratch,ignore_errors=True)
print(st, round(time.time()-t,1)); print(dict(stat)); print("counts",dict(counts)); print("fired",dict(fired))
for fp,c in fps.most_common(): w=ex[fp][0]; print(c,fp,"\n    ",(w.get("segment") or w.get("in") or json.dumps(w,default=str))[:300], ex[fp][1]["opts"])
for r,c in fails[:10]: print("FAIL",{k:(v if k!='_tb' else v[-700:]) for k,v in r.items()}, evm.to_plain_string([tuple(x) for x in c["block"]]), c["opts"])
