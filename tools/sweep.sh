#!/bin/bash
# tools/sweep.sh "<seeds>" "<checks>"   : runs the quick tier for every seed/check, prints one line each
cd "$(dirname "$0")/.."
for s in $1; do for p in $2; do
  out=$(VERIF_SEED=$s ./check $p 2>&1); rc=$?
  echo "seed=$s $p rc=$rc $(echo "$out" | grep -v KNOWN-FINDING | grep 'VIOLATION\|fingerprint\|INCONCLUSIVE' | head -6 | tr '\n' ' ' | cut -c1-400)"
  echo "$out" | grep "tier=" | tail -1
done; done
