#!/bin/bash
# tools/mutant_matrix.sh [seed]  : applies every seeded change to /repo in turn, runs the quick tier of the check of
# its property (meta.json "property"), reverts, and prints one line per change: CAUGHT / MISSED / NOAPPLY
cd "$(dirname "$0")/.."
export VERIF_SEED=${1:-0}
for d in seeded/*/; do
  p=$(/venv/bin/python -c "import json,sys;print(json.load(open('$d/meta.json'))['property'])")
  if ! git -C /repo diff --quiet; then echo "/repo dirty"; exit 2; fi
  if ! git -C /repo apply "$PWD/$d/patch.diff" 2>/dev/null; then echo "NOAPPLY $d"; continue; fi
  out=$(./check $p 2>&1); rc=$?
  git -C /repo checkout -- .
  fp=$(echo "$out" | grep -v KNOWN-FINDING | grep "fingerprint" | head -2 | tr '\n' ' ' | cut -c1-200)
  if [ $rc -eq 1 ]; then echo "CAUGHT  $d $p $fp"; else echo "MISSED  $d $p rc=$rc"; fi
done
