#!/bin/bash
# tools/mutant_matrix.sh [seed]  : tries every seeded change in a scratch worktree of /repo (GASOL_VERIF_REPO, so /repo
# itself and background sweeps are untouched), runs the quick tier of the check of its property (meta.json
# "property") and prints one line per change: CAUGHT / MISSED / NOAPPLY
cd "$(dirname "$0")/.."
export VERIF_SEED=${1:-0}
wt=$(mktemp -d /tmp/wt_matrix_XXXX); rmdir "$wt"
git -C /repo worktree add --detach "$wt" HEAD -q || exit 2
trap 'git -C /repo worktree remove --force "$wt"' EXIT
for d in seeded/*/; do
  [ -f "$d/meta.json" ] || { echo "NOMETA  $d"; continue; }
  p=$(/venv/bin/python -c "import json,sys;print(json.load(open('$d/meta.json'))['property'])")
  git -C "$wt" checkout -q -- .
  if ! git -C "$wt" apply "$PWD/$d/patch.diff" 2>/dev/null; then echo "NOAPPLY $d"; continue; fi
  out=$(GASOL_VERIF_REPO="$wt" ./check $p 2>&1); rc=$?
  fp=$(echo "$out" | grep -v KNOWN-FINDING | grep "fingerprint" | head -2 | tr '\n' ' ' | cut -c1-200)
  if [ $rc -eq 1 ]; then echo "CAUGHT  $d $p $fp"; else echo "MISSED  $d $p rc=$rc"; fi
done
