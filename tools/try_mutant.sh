#!/bin/bash
# tools/try_mutant.sh <patch.diff> <check> [<check>...]   (env VERIF_SEED, VERIF_TIER honoured)
# development helper: tries a seeded change in a scratch worktree of /repo (GASOL_VERIF_REPO) so that /repo itself is
# untouched and background sweeps are not disturbed.  The confirmation recorded in seeded/*/meta.json is always
# tools/run_mutant.sh, which applies the change to /repo itself.
patch="$1"; shift
wt=$(mktemp -d /tmp/wt_mut_XXXX); rmdir "$wt"
git -C /repo worktree add --detach "$wt" HEAD -q || exit 2
trap 'git -C /repo worktree remove --force "$wt"' EXIT
git -C "$wt" apply "$patch" || { echo "patch does not apply"; exit 2; }
cd /verif
for c in "$@"; do
  out=$(GASOL_VERIF_REPO="$wt" ./check "$c" 2>&1); rc=$?
  echo "== $c rc=$rc"; echo "$out" | grep -v "^KNOWN-FINDING" | grep "VIOLATION\|fingerprint\|INCONCLUSIVE\|tier=" | cut -c1-260 | head -12
done
