#!/bin/bash
# tools/run_mutant.sh <patch.diff> <check> [<check>...]   (env VERIF_SEED, VERIF_TIER honoured)
# applies the patch to /repo, runs the checks, and always reverts /repo afterwards
patch="$1"; shift
cd /repo || exit 2
if ! git diff --quiet; then echo "/repo has uncommitted changes"; exit 2; fi
git apply "$patch" || { echo "patch does not apply"; exit 2; }
trap 'git -C /repo checkout -- . ' EXIT
cd /verif; export VERIF_SCRATCH_EVIDENCE=1
for c in "$@"; do
  out=$(./check "$c" 2>&1); rc=$?
  echo "== $c rc=$rc"; echo "$out" | grep -v "^KNOWN-FINDING" | grep "VIOLATION\|fingerprint\|INCONCLUSIVE\|tier=" | cut -c1-260 | head -12
done
