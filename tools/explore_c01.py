import sys, os, random, json, collections, tempfile, shutil, time
sys.path.insert(0, os.path.dirname(os.path.dirname(os.path.abspath(__file__))))
from vlib import pool, gen
N=int(sys.argv[1]); seed=int(sys.argv[2]) if len(sys.argv)>2 else 0
opts_sets=[["-greedy"],["-greedy","-storage"],["-greedy","-partition"],["-greedy","-size"],["-greedy","-length"],["-greedy","-no-simplification"],["-greedy","-push0"]]
rnd=random.Random(seed)
cases=[]
for i in range(N):
    b,k=gen.gen_block(rnd)
    cases.append({"block":b,"opts":opts_sets[i%len(opts_sets)],"sseed":rnd.getrandbits(30),"kind":k})
scratch=tempfile.mkdtemp(prefix="gv_")
fps=collections.Counter(); ex={}; stat=collections.Counter(); fails=[]
def on(idx,case,res):
    if "_fail" in res: stat["fail_"+res["_fail"]]+=1; fails.append((res,case)); return
    if "_handler_exception" in res: stat["hexc"]+=1; fails.append((res,case)); return
    stat["changed"]+=res.get("changed",False); stat["exc"]+=bool(res.get("exc")); stat["eqfalse"]+=res.get("eq_false",0)
    if "fingerprint" in res:
        fps[res["fingerprint"]]+=1; ex.setdefault(res["fingerprint"],res["viol"])
t=time.time()
st=pool.run_cases("monitors.c01:handle",cases,cpu_budget=30,env_extra={"GASOL_VERIF_SCRATCH":scratch},on_result=on)
shutil.rmtree(scratch,ignore_errors=True)
print(st, time.time()-t); print(stat)
for fp,c in fps.most_common(): print(c,fp,"\n    ",ex[fp]["in"],"=>",ex[fp]["out"],ex[fp]["opts"], ex[fp]["reason"])
for r,c in fails[:8]: print("FAIL",r, gen.evm.to_plain_string([tuple(x) for x in c["block"]]), c["opts"])
