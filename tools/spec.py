"""tools/spec.py "<plain block>" [opts...] : print the specification(s) the front-end produces"""
import sys, os, json, io, contextlib, tempfile
sys.path.insert(0, os.path.dirname(os.path.dirname(os.path.abspath(__file__))))
os.environ.setdefault("GASOL_VERIF_SCRATCH", tempfile.mkdtemp(prefix="gvs_"))
from vlib import evm, gen, drive
from monitors import c03, c01
blk = evm.from_plain_string(sys.argv[1]); opts = sys.argv[2:] or ["-greedy"]
with contextlib.redirect_stdout(io.StringIO()):
    specs, exc = c03.front_end(blk, opts)
print("exc", exc)
for key, S, seg in specs:
    print("==", key, "seg:", evm.to_plain_string(seg))
    for k in ("src_ws","tgt_ws","init_progr_len","max_sk_sz","min_length","storage_dependences","memory_dependences","rules"):
        print("  ", k, S.get(k))
    for ins in S["user_instrs"]:
        print("     ", ins["id"], ins["inpt_sk"], "->", ins["outpt_sk"], ins.get("value",""), "storage" if ins.get("storage") else "")
import shutil; shutil.rmtree(os.environ["GASOL_VERIF_SCRATCH"], ignore_errors=True)
