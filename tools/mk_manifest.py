"""Regenerates MANIFEST.json from the table below (kept in one place so it stays valid)."""
import json, os
V = os.path.dirname(os.path.dirname(os.path.abspath(__file__)))
CHECKS = {
 "C01": dict(cat="exploration", tech="differential execution on a reference EVM interpreter (runtime monitor on the real pipeline)",
   text="Every block the real optimize->compare->keep-or-revert pipeline emits is executed against its input block on K sampled machine states by an independent interpreter; held on the executions explored, not a proof.",
   note="trusts vlib/evm.py + vlib/opsem.py (operators cross-checked against z3 bit-vector semantics); GAS/PC/MSIZE excluded; sampled states", ref="3/C01"),
 "C03": dict(cat="exploration", tech="hook monitors (pre/post conditions) on the rule and folding functions + spec-vs-block differential evaluation",
   text="Post-conditions evaluated on every call the real front-end makes to apply_transform, apply_cond_transformation, evaluate_expression(_ter), update_unary_func, compute_binary (size gate) under rule-directed workloads, plus evaluation of each emitted specification against the block on sampled states.",
   note="trusts vlib/opsem.py, vlib/sfs_eval.py, vlib/evm.py; valuations sampled (boundary pool first)", ref="3/C03"),
 "C02": dict(cat="exploration", tech="enumeration of admissible schedules of each emitted specification, evaluated against a reference interpreter; hook monitor on are_dependent",
   text="Every specification the real front-end emits for memory/storage-heavy generated blocks is evaluated under all (<=200) or sampled linearizations of its state-touching operations on aliasing-heavy states and compared with the block's execution; are_dependent's False answers on constant accesses are checked against a byte-range overlap computation.",
   note="trusts vlib/sfs_eval.py (evaluator, linearization enumerator) and vlib/evm.py; states sampled", ref="3/C02"),
 "C04": dict(cat="exploration", tech="post-condition (deep-copied pre-state) on greedy_from_json checked by symbolic execution of the returned id sequence",
   text="A post-condition on every greedy_from_json call (real pipeline on generated blocks + direct calls on hand-built specifications): success implies the id sequence realizes the pre-call specification (no underflow, DUP/SWAP 1..16, stores once, dependencies, exact operands, final stack).",
   note="trusts vlib/sfs_eval.realizes; hand-built specs follow the front-end JSON conventions", ref="3/C04"),
 "C14": dict(cat="exploration", tech="post-conditions on the real splitters and on rebuild_optimized_asm_block, checked against an independent join/stack-effect computation",
   text="For generated blocks under the three splitting policies: the two splitters agree, join(subblocks) reproduces the optimizable sequence, spec keys name reported sub-blocks, src_ws/tgt_ws heights are consistent with our stack-effect table, rebuild with nothing optimized is the identity and replacing one sub-block by a marker changes only that segment.",
   note="trusts vlib/evm.ARITY; the splitter's convention of dropping the ASSIGNIMMUTABLE operand in its lists is accepted", ref="3/C14"),
 "C15": dict(cat="exploration", tech="round-trip oracles over shipped and synthesized documents, generated blocks and constant spellings",
   text="to_json(parse_asm(D)) = D modulo PUSH0 spelling on all shipped and synthesized documents (also the --asm-json form), parse_plain(to_plain(B)) = B on generated blocks in both text renderings, and every defined spelling of a constant parses to that constant; push0 on and off.",
   note="{} and {asm:null} identified; pseudo-push operands compared as the number they denote", ref="3/C15"),
 "C18": dict(cat="exploration", tech="bounded-exhaustive enumeration of formula trees through the real constructors with a reference evaluator and an independent SMT-LIB reader",
   text="All formula trees of depth <=1, all binary depth-2 trees (thorough; 1/12 systematic sample in quick) and sampled depth 3-4 trees are built through add_* and compared under all 36 valuations with the reference value of the unsimplified tree, both as objects and through translate_formula + our SMT-LIB reader; == of constructed formulas implies equal truth tables on all ordered pairs of depth-1 formulas.",
   note="trusts vlib/smt.py evaluator; Bool/Int disjoint", ref="3/C18"),
 "C05": dict(cat="exploration", tech="mutation workload with concrete distinguishing states from a reference interpreter, fed to the tool's own checker; reflexivity monitor",
   text="Generated blocks are paired with semantic mutants (operand swap, opcode substitution incl. signed/unsigned/shift kinds and split instructions, constant change, dropped/swapped/duplicated store, DUP/SWAP index, reordered or moved stack-neutral statements) for which the reference interpreter found a distinguishing state; compare_asm_block_asm_format must reject every such pair, accept (B,B) and never raise.",
   note="only witnessed mutants count; out-of-gas halts of dead accesses are not counted as a difference; the forves adapter's rendering (forves_format) is re-read and compared segment by segment, the external binary itself is not run", ref="3/C05"),
 "C16": dict(cat="exploration", tech="witness search (greedy result, symbolic replay of the original, bounded complete synthesizer) against the published bounds of every emitted specification",
   text="For every specification emitted for generated blocks a realizing sequence within (init_progr_len, max_sk_sz) is searched; non-existence is reported only after a complete bounded search; min_length is compared with every realizing sequence seen and original_instrs with our segmentation.",
   note="trusts vlib/sfs_eval.realizes/synthesize; specs too large for a complete search and without witness are inconclusive (counted)", ref="3/C16"),
 "C08": dict(cat="exploration", tech="independent cost meters (bytes, length, metered gas execution) on every pair the real pipeline emits; reconciliation of printed totals and CSV rows",
   text="Input and emitted block of the real pipeline under the three criteria are measured by independent meters (solc bytesRequired, item count, gas metered on sampled states); the emitted block must not cost more and may differ only when it improves as the property states; printed totals and CSV rows of CLI runs are reconciled with sums recomputed from the files.",
   note="gas compared on sampled states (static estimate only when every state halts out of gas); gas totals reconciled for additivity only", ref="3/C08"),
 "C09": dict(cat="exploration", tech="offline checker over emitted files: independent JSON reader comparing skeleton and validating every emitted item; re-read by the tool's parser",
   text="Outputs of real CLI runs on shipped and synthesized documents (option sets incl. -c and -single-json) are read by an independent reader: contracts, version, data sections, source lists and the tag/jump/terminal/split-instruction skeleton must be unchanged field by field, every item in a changed segment must be a valid assembly item, and the tool's own parser must re-read the output to the same object.",
   note="pseudo-push operands compared as text or as denoted number; shipped documents limited to the smallest ones in quick", ref="3/C09"),
 "C17": dict(cat="exploration", tech="differential CLI runs (PUSH0 on/off, -c selection) with offline checkers over emitted files, CSV rows and printed totals",
   text="The same zero-push-rich documents are optimized with PUSH0 enabled and disabled: no PUSH0 item may be emitted when disabled, input and output accounting must differ between the settings by exactly one byte and one gas per zero push, and with -c X only X's blocks are processed, emitted and counted.",
   note="inputs contain no literal PUSH0 item; pricing check is differential between the two settings", ref="3/C17"),
 "C10": dict(cat="fault_enumeration", tech="resource monitor (CPU/RSS read from /proc by a supervising parent) on hostile workloads; failpoint injection in the front-end with output diff",
   text="Hostile generated blocks run through the real per-block pipeline under a supervising parent that enforces a CPU budget (20 s + 1 s per instruction) and 1.5 GiB RSS and records escaping exceptions; CLI runs must exit 0 with an output file under several hash seeds; a failpoint raising in the front-end for one block (in the first analysis only, or in every analysis) must leave every other block's result unchanged and that block unchanged.",
   note="bounded-progress restatement of termination; CPU time decides, wall-clock-only expiry is inconclusive", ref="3/C10"),
 "C11": dict(cat="fault_enumeration", tech="CLI round trip -log / -optimize-from-log with byte comparison; tampered-log injection with differential execution of accepted outputs",
   text="Logs written by real CLI runs are replayed with the same input/options (byte-identical output required) and in tampered form (9 edit kinds); a tampered replay must exit non-zero or emit code the reference interpreter cannot distinguish from the input.",
   note="equivalence of accepted tampered replays decided on sampled states", ref="3/C11"),
 "C12": dict(cat="exploration", tech="history permutation: the same blocks processed by fresh processes in different orders and alone; offline comparison of recorded results",
   text="Groups of generated blocks are processed by separate fresh processes in forward, reverse and shuffled orders and alone; per block the recorded specification dictionaries, sub-block lists, emitted code, statistics rows and log ids must be identical across histories.",
   note="one option set per process; timings and scratch directory excluded", ref="3/C12"),
 "C13": dict(cat="exploration", tech="repeated CLI runs under different PYTHONHASHSEED / cwd / load with byte comparison of all artefacts",
   text="The same input and options are run in separate processes under several hash seeds, scratch directories and concurrent load; specification JSONs, greedy id lists (log), emitted files and CSV rows (timings masked) must be byte-identical.",
   note="finitely many seeds and one load level", ref="3/C13"),
 "C06": dict(cat="exploration", tech="stand-in solver: z3 enumeration of all models of the emitted hard constraints, decoded by the tool's own model reader and judged by symbolic execution; SMT-LIB well-formedness checker",
   text="The real encoder writes the real .smt2 for specifications of small blocks under 19 encoder option sets; all models of the hard constraints (projected on the instruction sequence) are enumerated with z3, rendered in the solver's output format, decoded by _rebuild_block_from_solver/get_value and checked by realizes() within init_progr_len/max_sk_sz; a few models per instance go through optimize_block() with the stand-in executable; every script is checked for undeclared, doubly declared or ill-sorted symbols.",
   note="trusts z3 as model enumerator; complete per instance unless the 3000-model cap / 5 s limit is hit (counted); instance family init_progr_len<=5, max_sk_sz<=8", ref="3/C06"),
 "C07": dict(cat="exploration", tech="brute-force enumeration of realizing sequences vs. exhaustive model enumeration; soft-constraint penalties evaluated under each model",
   text="For small instances the set of realizing sequences within the bounds (our enumeration) and the set of models (z3) are both computed completely; satisfiability, equality of the cheapest true cost, optimality of the minimal-penalty models and constancy of penalty minus cost are checked for gas/size/length under 14 bounds/pruning/soft-constraint option sets.",
   note="true cost uses the specification's own gas/size fields; z3 trusted; same blocks under every option set", ref="3/C07"),
}
NOT_YET = {}
def main():
    props = [json.loads(l) for l in open(os.path.join(V, "properties.jsonl"))]
    checks = []
    na = []
    for p in props:
        pid = p["id"]
        c = CHECKS.get(pid)
        if c is None:
            na.append({"property_id": pid, "reason": NOT_YET.get(pid, "monitor not built yet in this round (planned, see DESIGN.md section 3); nothing is claimed for it")})
            continue
        checks.append({"property_id": pid, "quick_cmd": "VERIF_TIER=quick ./check %s" % pid,
                       "thorough_cmd": "VERIF_TIER=thorough ./check %s" % pid,
                       "evidence_file": "/verif/evidence/%s.json" % pid,
                       "replay_cmd_template": "./check %s --replay {path}" % pid, "engine": "gasol-runtime-monitors",
                       "level_claimed": {"category": c["cat"], "text": c["text"], "design_ref": c["ref"]},
                       "level_note": c["note"], "technique": c["tech"]})
    m = {"version": 1,
         "setup_cmd": "./check setup && ./check selftest",
         "hooks": {"guard": "GASOL_VERIF", "enable": "no source hooks: monitors are installed by rebinding module attributes inside the harness process (GASOL_VERIF=1 is set by ./check for harness-side code only)",
                   "baseline_off_cmd": "/venv/bin/python /verif/tools/baseline_check.py", "source_commits": [], "add_only": True},
         "engines": [{"name": "gasol-runtime-monitors", "path": "/verif/check", "serves_properties": [c["property_id"] for c in checks],
                      "kind_free_text": "supervised worker pool driving the real gasol pipeline in-process and through its CLI, with reference-model monitors (EVM interpreter, SFS evaluator), hook monitors and offline artefact checkers"}],
         "checks": checks, "not_applicable": na,
         "notes": "Exit codes: 0 held on everything explored, 1 VIOLATION, 2 INCONCLUSIVE (monitor not reached / harness self-test failed). Known findings: /verif/known_findings.jsonl."}
    json.dump(m, open(os.path.join(V, "MANIFEST.json"), "w"), indent=1)
    print("checks:", [c["property_id"] for c in checks], "not_applicable:", len(na))
if __name__ == "__main__":
    main()
