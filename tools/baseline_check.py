"""Runs the repository's pinned test command with the verification guard OFF and checks that every
test of BASELINE.json's stable_pass list passes.  exit 0 iff all of them pass."""
import json, os, subprocess, sys, tempfile
import xml.etree.ElementTree as ET
base = json.load(open("/root/.vp/BASELINE.json"))
out = tempfile.mktemp(suffix=".junit.xml")
env = {k: v for k, v in os.environ.items() if k not in ("GASOL_VERIF", "PYTHONPATH")}
cmd = base["cmd"].replace("<file>", out)
subprocess.run(cmd, shell=True, env=env, stdout=subprocess.DEVNULL, stderr=subprocess.DEVNULL)
passed = set()
for tc in ET.parse(out).getroot().iter("testcase"):
    if not any(ch.tag in ("failure", "error", "skipped") for ch in tc):
        passed.add("%s::%s" % (tc.get("classname"), tc.get("name")))
os.unlink(out)
missing = [t for t in base["stable_pass"] if t not in passed]
print("stable_pass: %d, passing now: %d, missing: %d" % (len(base["stable_pass"]), len(base["stable_pass"]) - len(missing), len(missing)))
for m in missing:
    print("  NOT PASSING:", m)
sys.exit(1 if missing else 0)
