"""C10 — every block is processed to completion; a failure costs at most that block.

(a) supervised in-process runs of the real per-block pipeline on hostile blocks: CPU time and peak
    RSS are read from /proc by the supervising parent (budget 40 s + 2 s per instruction, 1.5 GiB);
    exceptions escaping optimize_asm_block_asm_format / compare_asm_block_asm_format are violations;
(b) CLI runs: exit status 0 and an output file, under several PYTHONHASHSEED values;
(c) fault injection: a failpoint raising inside the front-end for one block; the output must equal
    the fault-free output everywhere but at that block, which must be emitted unchanged.
"""
import faulthandler
import json
import os
import random
import re
import tempfile

from vlib import evm, gen, drive, clirun
from monitors import c01

COUNTS = {}


def handle(case):
    drive.setup()
    params = c01.params_for(case["opts"])
    block = [tuple(x) for x in case["block"]] if "block" in case else [(i["name"], i.get("value")) for i in case["items"]]
    dump = os.path.join(os.environ.get("GASOL_VERIF_SCRATCH", tempfile.gettempdir()), "dump_%d.txt" % os.getpid())
    with open(dump, "w") as f:
        f.write("CASE %s\n" % case.get("idx"))
        f.flush()
        faulthandler.dump_traceback_later(max(2.0, case.get("_cpu", 20.0) * 0.8), repeat=False, file=f, exit=False)
        try:
            blocks = drive.build_blocks(case["items"] if "items" in case else gen.to_items(block))
            viols = []
            n_changed = 0
            for b in blocks:
                r = drive.run_block(b, params)
                n_changed += bool(r["changed"])
                for key, where in (("exc_opt", "optimize_asm_block_asm_format"), ("exc_cmp", "compare_asm_block_asm_format")):
                    if r[key]:
                        viols.append({"fingerprint": "exception escapes %s: %s" % (where, r[key].split(":")[0]),
                                      "witness": {"block": evm.to_plain_string(block), "opts": case["opts"], "err": r[key]}})
            drive.clean_scratch()
        finally:
            faulthandler.cancel_dump_traceback_later()
    return {"viols": viols, "counts": {"blocks": len(blocks), "changed": n_changed}, "n": len(block)}


def expanded_term_size(block):
    """size of the largest term of the block written as a tree (sub-terms shared through DUP counted once per use):
    a symbolic stack of sizes.  Linear blocks with an exponential value here are DAG-shaped."""
    try:
        need, _ = evm.stack_effect(block)
    except Exception:
        return 0
    st = [1] * need
    best = 1
    for n, v in block:
        if n.startswith("DUP") and n[3:].isdigit():
            st.insert(0, st[int(n[3:]) - 1])
        elif n.startswith("SWAP") and n[4:].isdigit():
            k = int(n[4:])
            st[0], st[k] = st[k], st[0]
        else:
            ar = evm.ARITY.get(n)
            if ar is None:
                break
            args = [st.pop(0) for _ in range(min(ar[0], len(st)))]
            for _ in range(ar[1]):
                st.insert(0, 1 + sum(args))
        if st:
            best = max(best, max(st))
    return best


def hot_frame(scratch, pid):
    """innermost repository frame of the dump the worker's faulthandler wrote"""
    try:
        with open(os.path.join(scratch, "dump_%d.txt" % pid)) as f:
            txt = f.read()
    except Exception:
        return "?"
    for line in txt.split("\n"):
        m = re.search(r'File "%s/([^"]+)", line \d+ in (\w+)' % re.escape(os.environ.get("GASOL_VERIF_REPO", "/repo")), line)
        if m:
            return "%s:%s" % (m.group(1), m.group(2))
    return "?"


def run():
    from vlib import findings, pool
    from monitors import common, cli_props
    import shutil
    import time
    r = findings.Run("C10", level="fault_enumeration")
    quick = common.tier() == "quick"
    n = 3000 if quick else 30000
    rnd = random.Random(common.seed() + 10)
    opts = [["-greedy"], ["-greedy", "-size"], ["-greedy", "-partition"], ["-greedy", "-no-simplification"],
            ["-greedy", "-storage"], ["-greedy", "-length", "-push0"]]
    cases = common.gen_cases(n, common.seed(), opts, kinds=["hostile", "hostile", "hostile", "deep", "long", "rule", "splitlong", "identity"])
    # blocks of the shipped examples (our own segmentation of the code streams)
    import glob
    shipped = sorted(glob.glob(os.environ.get("GASOL_VERIF_REPO", "/repo") + "/examples/jsons-solc/*.json_solc"), key=os.path.getsize)
    shipped = ([p for p in shipped if "0x5552F8" in p] + shipped[:1]) if quick else shipped
    n_ship = 0
    for p in shipped:
        with open(p) as f:
            doc = json.load(f)
        for cname, kind, did, items in clirun.code_streams(doc):
            cur = []
            for it in items + [None]:
                if it is None or (it["name"] == "tag" and cur):
                    if cur and any(x["name"] not in ("tag", "JUMPDEST") for x in cur):
                        blk = [[x["name"], x.get("value")] for x in cur]
                        if (not quick) or len(cur) > 150 or n_ship % 40 == 0:
                            cases.append({"items": cur, "block": blk, "opts": ["-greedy"], "_group": "-greedy", "kind": "shipped",
                                          "idx": len(cases), "sseed": 0})
                        n_ship += 1
                    cur = []
                if it is not None:
                    cur.append(it)
                    if it["name"] in ("JUMP", "JUMPI", "STOP", "RETURN", "REVERT", "INVALID"):
                        if any(x["name"] not in ("tag", "JUMPDEST") for x in cur):
                            blk = [[x["name"], x.get("value")] for x in cur]
                            if (not quick) or len(cur) > 150 or n_ship % 40 == 0:
                                cases.append({"items": cur, "block": blk, "opts": ["-greedy"], "_group": "-greedy", "kind": "shipped",
                                              "idx": len(cases), "sseed": 0})
                            n_ship += 1
                        cur = []
    cases.sort(key=lambda c: c["_group"])
    for c in cases:
        c["_cpu"] = 40.0 + 2.0 * len(c["block"])
    # (a) supervised pool, with access to the per-worker dump files
    scratch = tempfile.mkdtemp(prefix="gasol_verif_")
    stats = {"cpu": [], "over": 0}

    class Col(common.Collector):
        def __call__(self, idx, case, res):
            if "_fail" in res:
                stats["over"] += 1
                where = "?"
                # the pool restarted the worker; dumps are keyed by pid: take the newest dump mentioning this case
                best = None
                for fn in os.listdir(scratch):
                    if fn.startswith("dump_"):
                        try:
                            with open(os.path.join(scratch, fn)) as f:
                                t = f.read()
                            if t.startswith("CASE %s\n" % case.get("idx")):
                                best = fn
                        except Exception:
                            pass
                if best:
                    where = hot_frame(scratch, int(best[5:-4]))
                kind = {"cpu": "CPU budget (40 s + 2 s per instruction) exceeded", "rss": "memory budget (1.5 GiB) exceeded",
                        "wall": None, "crash": "worker process died"}.get(res["_fail"])
                if kind is None:
                    self.run.inconclusive.append("wall-clock watchdog only: case %s" % case.get("idx"))
                else:
                    blk = [(x[0], x[1]) for x in case["block"]]
                    size = expanded_term_size(blk)
                    if size >= 40 * max(1, len(blk)) and size >= 1000:
                        # the block is linear but its terms, written as trees, are exponentially large: every traversal
                        # of a term that does not remember what it has visited (search_for_value_aux and its helpers)
                        # takes exponential time, and the copies made on the way can exhaust memory or the C stack
                        # (threshold: >= 1000 nodes and >= 40 nodes per instruction; generated blocks of every other
                        #  kind stay below 300 nodes.  Ten doublings are already enough to come near the budget on a
                        #  loaded machine, so the class must not depend on how far beyond the budget a case is.)
                        kind += " on a block whose terms share sub-terms through DUP (expanded term far larger than the block)"
                        if where == "?" or where.startswith(("sfs_generator/", "greedy/", "verification/")):
                            where = "the term traversal"
                    self.run.witness("%s in %s" % (kind, where),
                                     {"block": evm.to_plain_string([(x[0], x[1]) for x in case["block"]])[:600], "opts": case["opts"],
                                      "cpu_s": res.get("cpu"), "rss": res.get("rss"), "instructions": len(case["block"])})
                self.stat["budget_" + res["_fail"]] += 1
                return
            if "_cpu_s" in res:
                stats["cpu"].append(res["_cpu_s"])
            return super().__call__(idx, case, res)
    col = Col(r)
    try:
        st = pool.run_cases("monitors.c10:handle", cases, cpu_budget=60.0, rss_budget=int(1.5 * (1 << 30)),
                            env_extra={"GASOL_VERIF_SCRATCH": scratch}, on_result=col)
    finally:
        shutil.rmtree(scratch, ignore_errors=True)
    cpu = sorted(stats["cpu"])
    pct = lambda p: cpu[min(len(cpu) - 1, int(p * len(cpu)))] if cpu else None
    # (b) CLI runs under several hash seeds (without the DUP-shared term DAG: the supervised cases above already show that
    #     known blow-up block by block; inside a document it would only make the whole run exceed its budget)
    gen.HOSTILE_DAG = False
    docs = [gen.gen_document(rnd, n_contracts=2, kinds=["hostile", "hostile", "rule", "mem", "deep", "identity"]) for _ in range(4 if quick else 20)]
    seeds = ["0", "1", "2", "3"]
    jobs = [(d, opts[i % len(opts)], seeds[i % 4]) for i, d in enumerate(docs)]
    res_cli = cli_props.parallel(jobs, lambda d, o, hs: clirun.run_cli(d, o, hashseed=hs, timeout=1200))
    cli_ok = 0
    for (d, o, hs), res in zip(jobs, res_cli):
        if clirun.watchdog(res, r, "hostile document %s" % (o,)):
            continue
        if res.cpu_exceeded:
            r.witness("CLI run does not finish within 1200 s of CPU time", {"opts": o})
        elif res.rc != 0:
            m = re.findall(r'File "%s/([^"]+)", line \d+, in (\w+)' % re.escape(os.environ.get("GASOL_VERIF_REPO", "/repo")), res.stderr_tail)
            r.witness("CLI exits with status %s (%s)" % (res.rc, "%s:%s" % m[-1] if m else "?"),
                      {"opts": o, "hashseed": hs, "stderr": res.stderr_tail[-800:]})
        elif res.text_file("_optimized.json_solc") is None:
            r.witness("CLI exits 0 without an output file", {"opts": o})
        else:
            cli_ok += 1
    # (c) fault injection
    fi = fault_injection(r, rnd, 6 if quick else 40)
    c = col.counts
    if col.stat["ok"] == 0:
        r.inconclusive.append("!no supervised case completed")
    if fi["faults_injected"] == 0:
        r.inconclusive.append("!no fault injected")
    r.coverage.update({"supervised_cases": col.stat["ok"] + stats["over"], "budget_exceeded": stats["over"],
                       "cpu_seconds_max": cpu[-1] if cpu else None, "cpu_seconds_p50": pct(0.5), "cpu_seconds_p99": pct(0.99),
                       "peak_rss_bytes": st.get("max_rss"), "blocks_changed": c.get("changed", 0),
                       "cases_per_generator": dict(col.by_kind), "cases_per_option_set": dict(col.by_group),
                       "cli_runs": len(jobs), "cli_runs_ok": cli_ok, "fault_injection": fi, "pool": st})
    r.assumptions = ["CPU time (utime+stime from /proc), not wall time, decides; a wall-clock-only expiry is inconclusive",
                     "budget: 40 s + 2 s per instruction and 1.5 GiB peak RSS per block (normal cost is a few ms)"]
    return r.finish(evaluations=col.stat["ok"] + stats["over"] + len(jobs) + fi["faults_injected"],
                    distinct_nontrivial=c.get("changed", 0) + fi["faults_contained"],
                    rule="hostile generated blocks under a supervising parent; CLI runs under 4 hash seeds; failpoints in the "
                         "front-end for one block per run; non-trivial = block changed by the optimizer (full pipeline "
                         "exercised) or injected fault whose containment was verified")


def fault_injection(r, rnd, n):
    from monitors import cli_props
    out = {"faults_injected": 0, "faults_contained": 0, "mode_counts": {}}
    docs = [gen.gen_document(rnd, n_contracts=1, blocks_per_stream=rnd.randrange(3, 6), kinds=["rule", "mem", "grammar", "identity"])
            for _ in range(n)]
    base = cli_props.parallel([(d, ["-greedy"]) for d in docs], lambda d, o: clirun.run_cli(d, o, timeout=900))
    jobs, meta = [], []
    for d, b in zip(docs, base):
        if clirun.watchdog(b, r, "fault-injection baseline") or b.rc != 0:
            continue
        rows = cli_props.read_csv(b.text_file("blocks.csv"))
        changed = [x["block_id"] for x in rows if x["old_instrs"] != x["new_instrs"]]
        allb = [x["block_id"] for x in rows]
        if not allb:
            continue
        target = rnd.choice(changed) if changed and rnd.random() < 0.8 else rnd.choice(allb)
        mode = rnd.choice(["original-only", "all-analyses"])
        jobs.append((d, ["-greedy"], {"GASOL_VERIF_FAILPOINT": target, "GASOL_VERIF_FAILPOINT_MODE": mode}))
        meta.append((d, b, target, mode, rows))
    res = cli_props.parallel(jobs, lambda d, o, env: clirun.run_cli(d, o, timeout=900, env_extra=env))
    for (d, b, target, mode, rows), f in zip(meta, res):
        if clirun.watchdog(f, r, "fault-injection run"):
            continue
        out["faults_injected"] += 1
        out["mode_counts"][mode] = out["mode_counts"].get(mode, 0) + 1
        if f.rc != 0 or f.text_file("_optimized.json_solc") is None:
            m = re.findall(r'File "%s/([^"]+)", line \d+, in (\w+)' % re.escape(os.environ.get("GASOL_VERIF_REPO", "/repo")), f.stderr_tail)
            site = next(("%s:%s" % x for x in reversed(m) if x[1] not in ("evm2rbr_compiler", "failing", "<module>", "main_gasol")), "?")
            r.witness("a failure while analysing one block aborts the whole run (escapes at %s, failpoint mode %s)" % (site, mode),
                      {"block": target, "rc": f.rc, "stderr": f.stderr_tail[-700:]})
            continue
        rows_f = {x["block_id"]: x for x in cli_props.read_csv(f.text_file("blocks.csv"))}
        ok = True
        for x in rows:
            y = rows_f.get(x["block_id"])
            if y is None:
                r.witness("a block row disappears when another block fails", {"block": x["block_id"], "failed": target})
                ok = False
                break
            if x["block_id"] == target:
                if y["new_instrs"] != y["old_instrs"]:
                    r.witness("the block whose analysis failed is not emitted unchanged", {"block": target})
                    ok = False
                    break
            elif y["new_instrs"] != x["new_instrs"]:
                r.witness("a failure in one block changes the result of another block",
                          {"failed": target, "other": x["block_id"], "mode": mode})
                ok = False
                break
        if ok:
            out["faults_contained"] += 1
    return out
