"""C07 — the Max-SMT problem keeps an optimal program and prices it correctly.

For small instances: R = all realizing sequences within (init_progr_len, max_sk_sz) found by our
own complete enumeration, priced with the specification's own gas/size fields; the models of the
emitted hard constraints (all of them, z3) decoded by the tool's reader.  Checked:
  * R non-empty  =>  hard constraints satisfiable;
  * min cost over decoded models == min cost over R (no optimal program is removed, under every
    bounds / pruning option set);
  * weight of violated soft constraints minus true cost is the same for all models."""
import copy
import random

from vlib import evm, gen, drive, sfs_eval
from monitors import c01, c03, c06

COUNTS = c06.COUNTS


def _count(k, n=1):
    COUNTS[k] = COUNTS.get(k, 0) + n


def criterion_of(opts):
    return "size" if "-size" in opts else "length" if "-length" in opts else "gas"


def handle(case):
    COUNTS.clear()
    drive.setup()
    c06.setup_standin()
    opts = case["opts"]
    params = c01.params_for(opts)
    crit = criterion_of(opts)
    viols = []
    specs, exc = c06.specs_of(case)
    sample = None
    for key, S, seg in specs:
        b0, bs = S["init_progr_len"], S["max_sk_sz"]
        if b0 <= 0 or b0 > case.get("max_b0", 6) or bs > 8:
            _count("skipped_out_of_family")
            continue
        # brute force over all realizing sequences
        R = []
        try:
            sfs_eval.synthesize(S, b0, bs, node_budget=case.get("budget", 400000), on_solution=R.append)
            brute_complete = True
        except sfs_eval.Budget:
            brute_complete = False
            _count("brute_force_budget_exhausted")
        n_before = len(viols)
        info = c06.check_instance(key, S, seg, params, opts, viols, case.get("cap", 3000))
        del viols[n_before:]            # C06's own findings are reported by C06, not here
        if not info.get("en"):
            continue
        _count("instances_c07")
        models = info["models"]
        if not info["exhaustive"] or not brute_complete:
            _count("instances_not_exhaustive")
            continue
        _count("instances_both_exhaustive")
        _count("realizing_sequences", len(R))
        _count("models_c07", len(models))
        seg_txt = evm.to_plain_string(seg)
        if R and not models:
            viols.append({"fingerprint": "hard constraints unsatisfiable although a realizing sequence exists within the bounds",
                          "witness": {"segment": seg_txt, "opts": opts, "a_realizing_sequence": R[0], "init_progr_len": b0,
                                      "max_sk_sz": bs, "spec": S}})
            continue
        if not R and not models:
            _count("instances_infeasible_bounds")
            continue
        if models and not R:
            # every model realizes (C06) yet our enumeration found nothing: our enumeration prunes never-useful
            # moves, so this can only be a non-minimal program; not a C07 matter
            _count("models_outside_pruned_enumeration")
            continue
        costR = min(sfs_eval.sequence_cost(S, q, crit) for q in R)
        mc = [(sfs_eval.sequence_cost(S, ids, crit), info["en"].penalty(m), ids) for ids, m in models]
        costM = min(c for c, _, _ in mc)
        _count("optimum_comparisons")
        if costM != costR:
            viols.append({"fingerprint": "criterion=%s: the cheapest model costs %s the cheapest realizing sequence" % (
                crit, "more than" if costM > costR else "less than"),
                "witness": {"segment": seg_txt, "opts": opts, "min_cost_models": costM, "min_cost_realizing": costR,
                            "cheapest_realizing": min(R, key=lambda q: sfs_eval.sequence_cost(S, q, crit)),
                            "cheapest_model": min(mc, key=lambda x: x[0])[2], "spec": S}})
            continue
        # the Max-SMT optimum (minimal penalty) must be a cheapest program
        pmin = min(p for _, p, _ in mc)
        worst_at_pmin = max(c for c, p, _ in mc if p == pmin)
        if worst_at_pmin != costR:
            viols.append({"fingerprint": "criterion=%s: a model with minimal soft penalty is not a cheapest program" % crit,
                          "witness": {"segment": seg_txt, "opts": opts, "cost_of_soft_optimum": worst_at_pmin, "true_min": costR,
                                      "spec": S}})
            continue
        diffs = sorted(set(p - c for c, p, _ in mc))
        _count("soft_minus_cost_checks", len(mc))
        if len(diffs) > 1 and crit == "size":
            # is the whole discrepancy explained by the encoder capping every size weight at 5 bytes?
            byid = sfs_eval.by_id(S)
            capped = lambda ids: sum(min(5, byid[i]["size"]) if i in byid else (0 if i == "NOP" else 1) for i in ids)
            if len({p - capped(ids) for _, p, ids in mc}) == 1:
                a = next(x for x in mc if x[1] - x[0] == diffs[0])
                b = next(x for x in mc if x[1] - x[0] == diffs[-1])
                viols.append({"fingerprint": "criterion=size: soft weights cap an instruction's size at 5 bytes, so penalty minus "
                                             "true byte cost is not constant over the models",
                              "witness": {"segment": seg_txt, "opts": opts, "differences": diffs[:6],
                                          "model_a": {"ids": a[2], "cost": a[0], "penalty": a[1]},
                                          "model_b": {"ids": b[2], "cost": b[0], "penalty": b[1]}}})
                diffs = diffs[:1]
        if len(diffs) > 1:
            a = next(x for x in mc if x[1] - x[0] == diffs[0])
            b = next(x for x in mc if x[1] - x[0] == diffs[-1])
            viols.append({"fingerprint": "criterion=%s: soft penalty minus true cost is not constant over the models" % crit,
                          "witness": {"segment": seg_txt, "opts": opts, "differences": diffs[:6],
                                      "model_a": {"ids": a[2], "cost": a[0], "penalty": a[1]},
                                      "model_b": {"ids": b[2], "cost": b[0], "penalty": b[1]}, "spec": S}})
        if sample is None:
            sample = {"segment": seg_txt, "opts": opts, "criterion": crit, "realizing_sequences": len(R), "models": len(models),
                      "optimum": costR}
    drive.clean_scratch()
    res = {"viols": viols, "counts": dict(COUNTS)}
    if case.get("want_sample") and sample:
        res["sample"] = sample
    return res


OPTS = [
    ["-solver", "z3"],
    ["-solver", "z3", "-size"],
    ["-solver", "z3", "-length"],
    ["-solver", "z3", "-order-bounds"],
    ["-solver", "z3", "-order-conflicts"],
    ["-solver", "z3", "-order-bounds", "-order-conflicts", "-size"],
    ["-solver", "z3", "-at-most", "-pushed-once"],
    ["-solver", "z3", "-no-output-before-pop", "-length"],
    ["-solver", "z3", "-at-most", "-pushed-once", "-no-output-before-pop", "-order-bounds", "-size"],
    ["-solver", "z3", "-direct-inequalities"],
    ["-solver", "z3", "-direct-inequalities", "-size"],
    ["-solver", "z3", "-memory-encoding", "l_vars"],
    ["-solver", "z3", "-memory-encoding", "l_vars", "-length"],
    ["-solver", "oms", "-term-encoding", "int", "-size"],
]


def run():
    from vlib import findings
    from monitors import common
    r = findings.Run("C07")
    quick = common.tier() == "quick"
    rnd = random.Random(common.seed() + 7)
    allb = list(c06.small_blocks(3))
    rnd.shuffle(allb)
    n_small = 30 if quick else 500
    n_rand = 12 if quick else 120
    cases = []
    for oi, o in enumerate(OPTS):
        g = " ".join(o)
        # the same blocks under every option set, so that optima are compared across option toggles through the
        # common brute-force value
        for b in allb[:n_small]:
            cases.append({"block": b, "opts": o, "_group": g, "kind": "small-exhaustive-family", "_cpu": 90})
        # the same load/store blocks under every option set
        for b in c06.dep_blocks(random.Random(common.seed() + 707), 70 if quick else 700):
            cases.append({"block": b, "opts": o, "_group": g, "kind": "load-store-blocks", "_cpu": 90})
        for b in c06.flow_blocks(random.Random(common.seed() + 717), 24 if quick else 240):
            cases.append({"block": b, "opts": o, "_group": g, "kind": "load-flow-store-blocks", "_cpu": 90})
        for b in c06.ternary_blocks(random.Random(common.seed() + 727), 6 if quick else 40):
            cases.append({"block": b, "opts": o, "_group": g, "kind": "ternary-blocks", "_cpu": 90})
        for b in c06.repeat_blocks(random.Random(common.seed() + 737), 10 if quick else 80):
            cases.append({"block": b, "opts": o, "_group": g, "kind": "repeated-value-blocks", "_cpu": 90})
        for b in c06.store_pop_blocks(random.Random(common.seed() + 747), 10 if quick else 30):
            cases.append({"block": b, "opts": o, "_group": g, "kind": "store-pop-blocks", "_cpu": 90})
        rr = random.Random(common.seed() + 77)
        for i in range(n_rand):
            b, k = gen.gen_block(rr, "short")
            cases.append({"block": b[:6], "opts": o, "_group": g, "kind": "short-random", "_cpu": 90})
    for i, c in enumerate(cases):
        c["idx"] = i
    seen = set()
    for c in cases:
        if c["_group"] not in seen:
            seen.add(c["_group"])
            c["want_sample"] = True
    cases.sort(key=lambda c: c["_group"])
    col = common.Collector(r)
    st = common.run_pool("monitors.c07:handle", cases, col, cpu_budget=120.0)
    c = col.counts
    for need in ("instances_both_exhaustive", "optimum_comparisons", "soft_minus_cost_checks"):
        if c.get(need, 0) == 0:
            r.inconclusive.append("!never reached: " + need)
    r.coverage.update({"instances": c.get("instances_c07", 0), "instances_both_exhaustive": c.get("instances_both_exhaustive", 0),
                       "instances_not_exhaustive": c.get("instances_not_exhaustive", 0),
                       "realizing_sequences_enumerated": c.get("realizing_sequences", 0), "models_enumerated": c.get("models_c07", 0),
                       "optimum_comparisons": c.get("optimum_comparisons", 0),
                       "soft_minus_cost_checks": c.get("soft_minus_cost_checks", 0),
                       "instances_with_infeasible_bounds_left_to_C16": c.get("instances_infeasible_bounds", 0),
                       "option_sets": len(OPTS), "instances_per_option_set": dict(col.by_group),
                       "budget_exceeded_cases": {k: v for k, v in col.stat.items() if k.startswith("budget_")}, "pool": st})
    r.assumptions = ["true cost of a sequence = the specification's own gas/size fields for its instructions, 3/3/2 gas and 1 byte "
                     "for DUP/SWAP/POP, 0 for NOP; count of non-NOP ids for length",
                     "z3 enumerates the models; our enumeration of realizing sequences is complete modulo never-useful moves",
                     "the same blocks are run under every option set, so equal optima across toggles follow from equality with "
                     "the common brute-force optimum"]
    return r.finish(evaluations=c.get("instances_c07", 0), distinct_nontrivial=c.get("instances_both_exhaustive", 0),
                    rule="small-vocabulary blocks (length <= 3, all of a shuffled prefix) and short random blocks x criteria x "
                         "bounds/pruning option sets; non-trivial = instance where both the model set and the set of realizing "
                         "sequences were enumerated completely")
