"""C17 — instruction-set restrictions chosen by the user are honoured.

The same synthesized documents (rich in zero pushes: literal, folded X-X / AND(X,0), rule
results) are optimized through the CLI with PUSH0 enabled and disabled; emitted files, CSV rows
and printed totals are read by independent readers.  With -c X only X is optimized and emitted."""
import json
import random

from vlib import clirun, gen, costs, evm
from monitors import cli_props


def zero_heavy_document(rnd):
    doc = gen.gen_document(rnd, n_contracts=rnd.randrange(2, 4), kinds=["rule", "zero", "zero", "grammar", "mem"])
    return doc


def count_zero_pushes(text):
    pairs = evm.from_plain_string(text or "")
    return sum(1 for n, v in pairs if n == "PUSH0" or (n == "PUSH" and int(v, 16) == 0))


def strip_push0(text):
    return " ".join("PUSH 0" if t == "PUSH0" else t for t in (text or "").split(" "))


def render_plain(block, rnd, style):
    """text of a block for -bl input; style 0 = canonical (minimal hex, PUSH0 for zero), otherwise random spellings"""
    toks = []
    for n, v in block:
        if n == "PUSH":
            c = int(v, 16)
            w = max(1, (c.bit_length() + 7) // 8)
            if style == 0:
                toks.append("PUSH0" if c == 0 else "PUSH%d 0x%x" % (w, c))
            elif c == 0:
                toks.append(rnd.choice(["PUSH0", "PUSH1 0x00", "PUSH1 0x0", "PUSH1 0", "PUSH1 0x00", "PUSH2 0x0000"]))
            else:
                k = rnd.random()
                toks.append("PUSH%d 0x%0*x" % (w, 2 * w, c) if k < 0.4 else "PUSH%d %d" % (w, c) if k < 0.7 else
                            "PUSH%d 0x%0*x" % (min(32, w + 1), 2 * min(32, w + 1), c))
        else:
            toks.append(n)
    return " ".join(toks)


def replay_path(r, docs, base, counts):
    jobs = []
    for i, d in enumerate(docs):
        for extra in ([], ["-push0"]):
            jobs.append((d, base[i % len(base)] + extra))
    first = cli_props.parallel([(d, o + ["-log"]) for d, o in jobs], lambda d, o: clirun.run_cli(d, o, timeout=900))
    rep_jobs, meta = [], []
    for (d, o), res in zip(jobs, first):
        if clirun.watchdog(res, r, "run with -log") or res.rc != 0:
            continue
        log_text, direct = res.text_file("input.log"), res.text_file("_optimized.json_solc")
        if log_text is None or direct is None:
            continue
        rep_jobs.append((d, o + ["-optimize-from-log", "the.log"], {"the.log": log_text}))
        meta.append((o, direct))
    reps = cli_props.parallel(rep_jobs, lambda d, o, extra: clirun.run_cli(d, o, timeout=900, extra_files=extra))
    counts["replays_under_both_settings"] = 0
    counts["replays_with_push0_disabled"] = 0
    for (o, direct), res in zip(meta, reps):
        label = "replay with %s" % " ".join(o)
        if clirun.watchdog(res, r, label):
            continue
        counts["replays_under_both_settings"] += 1
        out_text = res.text_file("_optimized_from_log.json_solc")
        if res.rc != 0 or out_text is None:
            r.witness("replay of an untouched log fails under the PUSH0 setting of the first run",
                      {"opts": o, "stderr": res.stderr_tail[-400:]})
            continue
        if "-push0" in o:
            counts["replays_with_push0_disabled"] += 1
            try:
                out = json.loads(out_text)
            except Exception:
                out = None
            n0 = sum(1 for _, _, _, items in clirun.code_streams(out or {}) for it in items if it.get("name") == "PUSH0")
            if n0:
                r.witness("PUSH0 emitted although PUSH0 is disabled (log replay path)", {"opts": o, "push0_items": n0})
                continue
        if out_text != direct:
            r.witness("the document rebuilt from the log differs from the directly optimized one under the same PUSH0 setting",
                      {"opts": o})


def spelling_invariance(r, rnd, counts, n_files):
    files = []
    for _ in range(n_files):
        blocks = []
        while len(blocks) < 6:
            b, k = gen.gen_block(rnd, rnd.choice(["zero", "zero", "tradeoff", "rule", "short"]))
            if all(v is None or n == "PUSH" for n, v in b) and all(n in evm.ARITY and n not in evm.PSEUDO_PUSH for n, v in b):
                blocks.append(b + [("STOP", None)])
        variants = ["\n".join(render_plain(b, rnd, st) for b in blocks) + "\n" for st in (0, 1, 2)]
        files.append(variants)
    jobs = []
    for fi, variants in enumerate(files):
        for o in (["-bl", "-greedy"], ["-bl", "-greedy", "-push0"]):
            for vi, text in enumerate(variants):
                jobs.append((text, o, fi, vi))
    results = cli_props.parallel(jobs, lambda t, o, fi, vi: clirun.run_cli(t, o, stem="blocks", suffix=".txt", timeout=600))
    counts["spelling_runs"] = len(jobs)
    counts["spelling_groups_compared"] = 0
    counts["spelling_groups_with_zero_push_variants"] = 0
    groups = {}
    for (text, o, fi, vi), res in zip(jobs, results):
        groups.setdefault((fi, tuple(o)), []).append((vi, text, res))
    for (fi, o), members in sorted(groups.items()):
        label = "plain-text file %d" % fi
        if any([clirun.watchdog(res, r, label) for _, _, res in members]):
            continue
        figs = []
        for vi, text, res in members:
            if res.rc != 0 or res.totals() is None:
                r.witness("CLI run on plain-text input failed (rc=%s)" % res.rc, {"doc": label, "opts": list(o), "text": text[:400],
                                                                                  "stderr": res.stderr_tail[-400:]})
                figs = None
                break
            rows = cli_props.read_csv(res.text_file("_statistics_seq.csv"))
            keep = [k for k in (rows[0].keys() if rows else []) if any(x in k for x in ("estimated", "saved", "length", "n_instrs"))]
            figs.append((res.totals(), [[row["block_id"]] + [row[k] for k in keep] for row in rows]))
        if not figs:
            continue
        counts["spelling_groups_compared"] += 1
        if any(t.count("PUSH1 0x00") + t.count("PUSH2 0x0000") + t.count("PUSH1 0x0 ") for _, t, _ in members):
            counts["spelling_groups_with_zero_push_variants"] += 1
        for (vi, text, res), f in zip(members[1:], figs[1:]):
            if f[0] != figs[0][0]:
                r.witness("printed totals depend on how a constant is written in the plain-text input",
                          {"doc": label, "opts": list(o), "canonical": members[0][1][:300], "variant": text[:300],
                           "totals": [figs[0][0], f[0]]})
                break
            if f[1] != figs[0][1]:
                diff = next((a, b) for a, b in zip(figs[0][1], f[1]) if a != b) if len(f[1]) == len(figs[0][1]) else None
                r.witness("statistics rows depend on how a constant is written in the plain-text input",
                          {"doc": label, "opts": list(o), "canonical": members[0][1][:300], "variant": text[:300], "rows": diff})
                break


def run():
    from vlib import findings
    from monitors import common
    r = findings.Run("C17")
    quick = common.tier() == "quick"
    rnd = random.Random(common.seed() + 17)
    n_docs = 8 if quick else 60
    docs = [zero_heavy_document(rnd) for _ in range(n_docs)]
    base = [["-greedy"], ["-greedy", "-size"], ["-greedy", "-length"]]
    jobs = []
    for i, d in enumerate(docs):
        o = base[i % len(base)]
        jobs.append((d, o))
        jobs.append((d, o + ["-push0"]))
    results = cli_props.parallel(jobs, lambda d, o: clirun.run_cli(d, o, timeout=900))
    counts = {"cli_runs": 0, "zero_push_rows": 0, "rows_compared_across_settings": 0, "totals_reconciled": 0,
              "emitted_zero_pushes_enabled": 0, "emitted_zero_pushes_disabled": 0, "push0_items_when_disabled": 0}
    for i in range(0, len(jobs), 2):
        (doc, o_on), res_on = jobs[i], results[i]
        (_, o_off), res_off = jobs[i + 1], results[i + 1]
        label = "generated document %d" % (i // 2)
        counts["cli_runs"] += 2
        bad = any([clirun.watchdog(res, r, label) for res in (res_on, res_off)])
        for res, o in (() if bad else ((res_on, o_on), (res_off, o_off))):
            if res.rc != 0 or res.totals() is None:
                r.witness("CLI run failed (rc=%s)" % res.rc, {"doc": label, "opts": o, "stderr": res.stderr_tail[-500:]})
                bad = True
        if bad:
            continue
        counts["totals_reconciled"] += cli_props.check_totals(r, doc, o_on, res_on, label)
        counts["totals_reconciled"] += cli_props.check_totals(r, doc, o_off, res_off, label)
        out_on, out_off = res_on.json_file("_optimized.json_solc"), res_off.json_file("_optimized.json_solc")
        # (a) PUSH0 disabled: no PUSH0 item in the output (inputs here contain none)
        for cname, kind, did, items in clirun.code_streams(out_off):
            for it in items:
                if it.get("name") == "PUSH0":
                    counts["push0_items_when_disabled"] += 1
                    r.witness("PUSH0 emitted although PUSH0 is disabled", {"doc": label, "opts": o_off, "contract": cname})
                    break
                if it.get("name") == "PUSH" and it.get("value") == "0":
                    counts["emitted_zero_pushes_disabled"] += 1
        for cname, kind, did, items in clirun.code_streams(out_on):
            for it in items:
                if it.get("name") == "PUSH0" or (it.get("name") == "PUSH" and it.get("value") == "0"):
                    counts["emitted_zero_pushes_enabled"] += 1
        # (b) the setting is applied identically to input and output accounting (differential over the two runs)
        rows_on = {x["block_id"]: x for x in cli_props.read_csv(res_on.text_file("blocks.csv"))}
        rows_off = {x["block_id"]: x for x in cli_props.read_csv(res_off.text_file("blocks.csv"))}
        for bid, a in rows_on.items():
            b = rows_off.get(bid)
            if b is None:
                r.witness("block row missing in one of the two settings", {"doc": label, "block": bid})
                continue
            z_old = count_zero_pushes(a["old_instrs"])
            if strip_push0(a["old_instrs"]) != strip_push0(b["old_instrs"]):
                r.witness("input block text differs between the two settings", {"doc": label, "block": bid})
                continue
            counts["rows_compared_across_settings"] += 1
            if z_old:
                counts["zero_push_rows"] += 1
            if int(b["old_size"]) - int(a["old_size"]) != z_old or int(b["old_gas"]) - int(a["old_gas"]) != z_old:
                r.witness("input accounting does not price zero pushes as PUSH0 (1 byte/2 gas) vs PUSH1 0 (2 bytes/3 gas)",
                          {"doc": label, "block": bid, "zero_pushes": z_old, "size": [a["old_size"], b["old_size"]],
                           "gas": [a["old_gas"], b["old_gas"]], "instrs": a["old_instrs"][:200]})
            if strip_push0(a["new_instrs"]) == strip_push0(b["new_instrs"]):
                z_new = count_zero_pushes(a["new_instrs"])
                if int(b["new_size"]) - int(a["new_size"]) != z_new or int(b["new_gas"]) - int(a["new_gas"]) != z_new:
                    r.witness("output accounting does not price zero pushes consistently with the setting",
                              {"doc": label, "block": bid, "zero_pushes": z_new, "size": [a["new_size"], b["new_size"]],
                               "gas": [a["new_gas"], b["new_gas"]], "instrs": a["new_instrs"][:200]})
        if len(r.samples) < 2:
            r.add_sample({"doc": label, "opts_pair": [o_on, o_off], "totals_enabled": res_on.totals(),
                          "totals_disabled": res_off.totals()})
    # (c) contract selection
    sel_jobs = []
    for i, d in enumerate(docs[:(3 if quick else 20)]):
        names = [c.split("/")[-1].split(":")[-1] for c, v in d["contracts"].items() if v.get("asm")]
        for nm in names:
            sel_jobs.append((d, base[i % len(base)] + ["-c", nm], nm))
    sel_res = cli_props.parallel(sel_jobs, lambda d, o, nm: clirun.run_cli(d, o, timeout=900))
    counts["selection_runs"] = 0
    c9 = {}
    for (doc, o, nm), res in zip(sel_jobs, sel_res):
        counts["selection_runs"] += 1
        label = "selection of %s" % nm
        if clirun.watchdog(res, r, label):
            continue
        if res.rc != 0:
            r.witness("CLI run with -c failed (rc=%s)" % res.rc, {"doc": label, "opts": o, "stderr": res.stderr_tail[-500:]})
            continue
        out = res.json_file("_optimized.json_solc")
        if out is None:
            r.witness("no optimized file emitted with -c", {"doc": label})
            continue
        cli_props.check_output_document(r, doc, out, [x for x in o if x not in ("-c", nm)], label, c9, contract=nm)
        rows = cli_props.read_csv(res.text_file("blocks.csv")) + cli_props.read_csv(res.text_file("_statistics_seq.csv"))
        for row in rows:
            if not row["block_id"].startswith(nm + "_"):
                r.witness("a block of a contract that was not selected was processed", {"doc": label, "block": row["block_id"]})
                break
        tot = res.totals()
        mine = cli_props.recompute_totals(doc, {"contracts": {"x:" + nm: {"asm": out}}}, "-push0" not in o, only_contract=nm)
        if tot and any(mine[k] != tot[k] for k in ("size0", "size1", "len0", "len1")):
            r.witness("printed totals with -c do not cover exactly the selected contract",
                      {"doc": label, "printed": tot, "recomputed": mine})
    counts["selection_streams_checked"] = c9.get("streams", 0)
    # (e) the log replay path under both settings: the document rebuilt from an untouched log has no PUSH0 item when PUSH0
    #     is disabled and equals the directly optimized one (the flag has to be applied on every entry path)
    replay_path(r, docs[:(3 if quick else 12)], base, counts)
    # (d) plain-text input: the way a constant is written (PUSH0 / PUSH1 0x00 / PUSH1 0 / PUSH2 0x0000, padded or
    #     minimal hex, decimal) must not change any figure of the run, under either setting
    spelling_invariance(r, rnd, counts, 6 if quick else 40)
    for need in ("zero_push_rows", "emitted_zero_pushes_enabled", "emitted_zero_pushes_disabled", "selection_runs",
                 "totals_reconciled", "spelling_groups_compared", "spelling_groups_with_zero_push_variants",
                 "replays_with_push0_disabled"):
        if counts.get(need, 0) == 0:
            r.inconclusive.append("!never reached: " + need)
    r.coverage.update(counts)
    r.assumptions = ["inputs contain no literal PUSH0 item (solc's asm JSON spells it PUSH 0), so any PUSH0 in an output "
                     "produced with PUSH0 disabled is a violation",
                     "the pricing check is differential: the same document is run with both settings"]
    return r.finish(evaluations=counts["cli_runs"] + counts["selection_runs"],
                    distinct_nontrivial=counts["zero_push_rows"],
                    rule="synthesized documents rich in zero pushes x {gas,size,length} x {PUSH0 on, off} through the CLI, plus "
                         "-c <contract> for every contract; non-trivial = block row containing at least one zero push, "
                         "compared across the two settings")
