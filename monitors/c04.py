"""C04 — the greedy back-end returns a sequence that realizes the specification.

A post-condition is installed on the repository's greedy_from_json (every bound copy): with a deep
copy of the specification taken before the call, error == 0 implies realizes(S0, resids).
Workloads: the real pipeline with -greedy (front-end specs) and hand-built specifications.
"""
import copy
import os
import random

from vlib import evm, gen, drive, sfs_eval
from monitors import c01

LOG = []
COUNTS = {}
_installed = False


def _count(k, n=1):
    COUNTS[k] = COUNTS.get(k, 0) + n


def check_result(S0, resids, error, where):
    _count("greedy_calls")
    if error != 0:
        _count("greedy_error_flag")
        return
    _count("greedy_success")
    if resids is None:
        LOG.append({"fingerprint": "greedy success with resids None", "witness": {"spec": S0}})
        return
    why = sfs_eval.realizes(S0, resids)
    deps = len(sfs_eval.dep_pairs(S0))
    if deps:
        _count("success_with_dependencies")
    COUNTS["max_len"] = max(COUNTS.get("max_len", 0), len(resids))
    if why is None:
        return
    cls = why.split(" ")[0]
    if cls == "dependency":
        a, b = why.split(" ")[1].split("->")
        byid = sfs_eval.by_id(S0)
        cls = "dependency %s->%s" % (byid[a]["disasm"], byid[b]["disasm"])
    elif cls in ("wrong-operands", "store"):
        iid = why.split(" ")[1]
        ins = sfs_eval.by_id(S0).get(iid)
        cls = "%s %s" % (cls, ins["disasm"] if ins else "?")
    LOG.append({"fingerprint": "greedy result does not realize spec: " + cls,
                "witness": {"reason": why, "ids": resids, "spec": S0, "where": where}})


def install():
    global _installed
    if _installed:
        return
    R = drive.setup()
    gm = R["greedy"]
    orig = gm.greedy_from_json

    def greedy_from_json(json_data, verb=False):
        S0 = copy.deepcopy(json_data)
        res = orig(json_data, verb)
        try:
            if json_data != S0:
                _count("spec_mutated_by_greedy")
                for k in S0:
                    if json_data.get(k) != S0[k]:
                        _count("spec_mutated_field " + k)
                for a, b in zip(S0.get("user_instrs", []), json_data.get("user_instrs", [])):
                    if a != b and not a.get("commutative") and a.get("inpt_sk") != b.get("inpt_sk"):
                        _count("spec_mutated_noncommutative_operands")
        except Exception:
            pass
        try:
            check_result(S0, res[3], res[4], "pipeline")
        except Exception as e:
            _count("monitor_internal_error")
            COUNTS["monitor_internal_error_msg"] = "%s: %s" % (type(e).__name__, e)
        return res
    # rebind every module attribute that *is* the original object
    import sys
    n = 0
    for mod in list(sys.modules.values()):
        d = getattr(mod, "__dict__", None)
        if not d or not getattr(mod, "__file__", None) or not str(mod.__file__).startswith(os.environ.get("GASOL_VERIF_REPO", "/repo")):
            continue
        for k, v in list(d.items()):
            if v is orig:
                d[k] = greedy_from_json
                n += 1
    COUNTS["_rebound"] = n
    _installed = True


def handle(case):
    install()
    rebound = COUNTS.get("_rebound", 0)
    LOG.clear()
    COUNTS.clear()
    COUNTS["rebound_sites"] = rebound
    res = {}
    if "spec" in case:
        drive.setup()
        c01.params_for(case["opts"])
        S = case["spec"]
        gm = drive.R["greedy"]
        try:
            out = gm.greedy_from_json(S)
            res["error"] = out[4]
            res["len"] = len(out[3]) if out[3] else 0
        except Exception as e:
            res["exc"] = type(e).__name__
            LOG.append({"fingerprint": "greedy_from_json raises " + type(e).__name__, "witness": {"spec": case["spec"]}})
        if case.get("want_sample"):
            res["sample"] = {"spec_src": S.get("src_ws"), "spec_tgt": S.get("tgt_ws"),
                             "instrs": [i["id"] for i in S.get("user_instrs", [])], "ids": out[3] if "error" in res else None}
    else:
        block = [tuple(x) for x in case["block"]]
        orig, emitted, info = c01.run_pipeline(block, case["opts"])
        res["changed"] = info["changed"]
        res["exc"] = info["exc"][:2]
    res["viols"] = list(LOG)
    res["counts"] = dict(COUNTS)
    return res


def run():
    from vlib import findings
    from monitors import common
    r = findings.Run("C04")
    quick = common.tier() == "quick"
    nb, ns = (3000, 3000) if quick else (30000, 30000)
    opts = [["-greedy"], ["-greedy", "-partition"], ["-greedy", "-size"], ["-greedy", "-no-simplification"],
            ["-greedy", "-push0"], ["-greedy", "-length"]]
    cases = common.gen_cases(nb, common.seed(), opts, kinds=["grammar", "mem", "mem", "rule", "deep", "split"])
    rnd = random.Random(common.seed() + 77)
    for i in range(ns):
        wide = rnd.random() < 0.2
        S = gen.gen_sfs(rnd, wide=wide)
        cases.append({"spec": S, "opts": ["-greedy"], "_group": "-greedy", "kind": "handbuilt-wide" if wide else "handbuilt",
                      "idx": nb + i, "want_sample": i < 3})
    cases.sort(key=lambda c: c["_group"])

    class Col(common.Collector):
        pass
    col = Col(r)
    st = common.run_pool("monitors.c04:handle", cases, col, cpu_budget=20.0)
    c = col.counts
    if c.get("greedy_success", 0) == 0:
        r.inconclusive.append("!greedy post-condition never evaluated on a success")
    r.coverage.update({"greedy_calls_observed": c.get("greedy_calls", 0), "greedy_successes_checked": c.get("greedy_success", 0),
                       "greedy_error_flag": c.get("greedy_error_flag", 0),
                       "successes_on_specs_with_dependencies": c.get("success_with_dependencies", 0),
                       "cases_per_generator": dict(col.by_kind), "cases_per_option_set": dict(col.by_group),
                       "budget_exceeded_cases": {k: v for k, v in col.stat.items() if k.startswith("budget_")},
                       "budget_exceeded_examples": col.fails[:3],
                       "specifications_altered_in_place_by_greedy": {k: v for k, v in c.items() if k.startswith("spec_mutated")},
                       "monitor_internal_errors": c.get("monitor_internal_error", 0), "pool": st})
    if c.get("monitor_internal_error", 0):
        r.inconclusive.append("!monitor internal error: %s" % [k for k in c if k.startswith("monitor_internal_error_msg")][:2])
    r.assumptions = ["vlib/sfs_eval.realizes (symbolic execution over SFS variable names) is the oracle",
                     "hand-built specifications follow the front-end's JSON conventions (vlib/gen.gen_sfs)"]
    return r.finish(evaluations=c.get("greedy_calls", 0), distinct_nontrivial=c.get("greedy_success", 0),
                    rule="every greedy_from_json call made by the real pipeline on generated blocks plus direct calls on "
                         "hand-built specifications; non-trivial = call that reported success (error == 0) and was checked "
                         "by realizes() (calls are on distinct generated inputs; duplicates are possible and not removed)")
