"""Shared machinery for the properties observed through the command line (C08 totals, C09, C10,
C11, C13, C17): parallel CLI runs and independent readers of the emitted artefacts."""
import csv
import io
import json
import random
from concurrent.futures import ThreadPoolExecutor

from vlib import clirun, gen, costs


def parallel(jobs, fn, workers=16):
    """jobs: list of argument tuples; returns list of results in order"""
    with ThreadPoolExecutor(max_workers=workers) as ex:
        return list(ex.map(lambda a: fn(*a), jobs))


def read_csv(text):
    if not text:
        return []
    return list(csv.DictReader(io.StringIO(text)))


# ------------------------------------------------------------------ C08 totals
def recompute_totals(doc_in, doc_out, push0, only_contract=None):
    t = {"size0": 0, "size1": 0, "len0": 0, "len1": 0}
    for (doc, s, l) in ((doc_in, "size0", "len0"), (doc_out, "size1", "len1")):
        for cname, kind, did, items in clirun.code_streams(doc, only_contract):
            pairs = [clirun.item_pair(it) for it in items]
            if kind == "run":
                t[s] += costs.block_bytes(pairs, push0)
            t[l] += costs.block_length(pairs)
    return t


def check_totals(run, doc, opts, res, label):
    """reconcile the printed totals of one CLI run; returns 1 if reconciled"""
    push0 = "-push0" not in opts
    if clirun.watchdog(res, run, label):
        return 0
    tot = res.totals()
    if res.rc != 0 or tot is None:
        run.witness("CLI run failed (rc=%s) while reconciling totals" % res.rc,
                    {"doc": label, "opts": opts, "stderr": res.stderr_tail[-600:]})
        return 0
    out = res.json_file("_optimized.json_solc")
    if out is None:
        run.witness("no optimized file emitted", {"doc": label, "opts": opts})
        return 0
    mine = recompute_totals(doc, out, push0)
    for k in ("size0", "size1", "len0", "len1"):
        if mine[k] != tot[k]:
            run.witness("printed total %s differs from the sum recomputed from the files" % k[:-1],
                        {"doc": label, "opts": opts, "printed": tot, "recomputed": mine})
            return 0
    rows = read_csv(res.text_file("blocks.csv"))
    if not rows:
        run.witness("blocks CSV empty or missing", {"doc": label, "opts": opts})
        return 0
    g0 = sum(int(r["old_gas"]) for r in rows)
    g1 = sum(int(r["new_gas"]) for r in rows)
    if (g0, g1) != (tot["gas0"], tot["gas1"]):
        run.witness("printed gas totals differ from the sum of the per-block rows",
                    {"doc": label, "opts": opts, "printed": tot, "rows_sum": [g0, g1]})
        return 0
    for r in rows:
        for m in ("gas", "size", "length"):
            if int(r["saved_" + m]) != int(r["old_" + m]) - int(r["new_" + m]):
                run.witness("CSV saved_%s is not old-new" % m, {"doc": label, "row": r["block_id"]})
                return 0
    # per-block size/length of the rows, recomputed from their own instruction text
    from vlib import evm
    for r in rows:
        for side in ("old", "new"):
            pairs = evm.from_plain_string(r[side + "_instrs"] or "")
            if costs.block_length(pairs) != int(r[side + "_length"]):
                run.witness("CSV %s_length differs from the instruction text" % side, {"doc": label, "row": r["block_id"]})
                return 0
            if not any(n in gen.PSEUDO or n == "ASSIGNIMMUTABLE" for n, _ in pairs):
                if costs.block_bytes([p for p in pairs if p[0] != "tag"], push0) != int(r[side + "_size"]):
                    run.witness("CSV %s_size differs from the instruction text" % side,
                                {"doc": label, "row": r["block_id"], "instrs": r[side + "_instrs"][:200],
                                 "csv": r[side + "_size"]})
                    return 0
    return 1


def run_totals(run, n_docs, seed):
    rnd = random.Random(seed + 4242)
    jobs = []
    optsets = [["-greedy"], ["-greedy", "-size"], ["-greedy", "-length", "-push0"], ["-greedy", "-size", "-push0"], ["-greedy", "-partition"],
               ["-greedy", "-size", "-partition"]]
    docs = []
    for i in range(n_docs):
        doc = gen.gen_document(rnd, n_contracts=rnd.randrange(1, 3),
                               kinds=["rule", "grammar", "mem", "tradeoff", "tradeoff", "tradeoff", "zero", "wrap", "identity"], blocks_per_stream=5)
        opts = optsets[i % len(optsets)]
        docs.append((doc, opts))
        jobs.append((doc, opts))
    results = parallel(jobs, lambda d, o: clirun.run_cli(d, o, timeout=900))
    ok = 0
    for i, ((doc, opts), res) in enumerate(zip(docs, results)):
        ok += check_totals(run, doc, opts, res, "generated document %d (seed %d)" % (i, seed))
    return {"cli_runs": len(jobs), "cli_runs_reconciled": ok}


# ------------------------------------------------------------------ C09: skeleton and item well-formedness
BEGIN = {"tag", "JUMPDEST"}
END = {"JUMP", "JUMPI", "STOP", "RETURN", "REVERT", "INVALID", "SELFDESTRUCT"}
SPLIT = {"LOG0", "LOG1", "LOG2", "LOG3", "LOG4", "CALLDATACOPY", "CODECOPY", "EXTCODECOPY", "RETURNDATACOPY", "CALL",
         "STATICCALL", "DELEGATECALL", "CREATE", "CREATE2", "ASSIGNIMMUTABLE", "GAS"}
STORES = {"SSTORE", "MSTORE", "MSTORE8"}


def skeleton_kinds(opts):
    k = BEGIN | END | SPLIT
    if "-storage" in opts:
        k = k | STORES
    return k


def split_stream(items, kinds):
    """-> (skeleton items list, segments list) with len(segments) == len(skeleton)+1"""
    skel, segs, cur = [], [], []
    for it in items:
        if it.get("name") in kinds:
            skel.append(it)
            segs.append(cur)
            cur = []
        else:
            cur.append(it)
    segs.append(cur)
    return skel, segs


def item_problem(it, seg_in_pairs, push0):
    """None, or why `it` (an item of a changed segment) is not a valid assembly item"""
    from vlib import evm
    name = it.get("name")
    if not isinstance(name, str) or name not in evm.ARITY:
        return "unknown opcode name %r" % (name,)
    for f in ("begin", "end", "source"):
        if not isinstance(it.get(f), int):
            return "field %s missing or not an integer" % f
    v = it.get("value")
    if name == "PUSH":
        if not isinstance(v, str) or v == "":
            return "PUSH without value"
        if v != v.lower() or v.startswith("0x") or (len(v) > 1 and v.startswith("0")):
            return "PUSH value not canonical hex"
        try:
            n = int(v, 16)
        except ValueError:
            return "PUSH value not hex"
        if n >= 1 << 256:
            return "PUSH value >= 2^256"
        return None
    if name == "PUSH0":
        if not push0:
            return "PUSH0 emitted although PUSH0 is disabled"
        return None if v is None else "PUSH0 with a value"
    if name.startswith("DUP") or name.startswith("SWAP"):
        return None           # ARITY only knows depths 1..16
    if name in evm.PSEUDO_PUSH:
        if name in ("PUSHSIZE", "PUSHDEPLOYADDRESS"):
            return None if v is None else "%s with a value" % name
        if v is None:
            return "%s without operand" % name
        for n2, v2 in seg_in_pairs:
            if n2 == name and (str(v2) == str(v) or evm.pseudo_key(n2, v2) == evm.pseudo_key(name, v)):
                return None
        return "%s operand does not occur in the input segment" % name
    if v is not None and name != "tag":
        return "%s carries a value" % name
    return None


def check_output_document(run, doc_in, doc_out, opts, label, counts, contract=None):
    """C09 checks on one (input, output) document pair.  contract: -c selection (output is that
    contract's assembly alone)."""
    push0 = "-push0" not in opts
    kinds = skeleton_kinds(opts)

    def bad(fp, **w):
        run.witness(fp, dict(w, doc=label, opts=opts))
        return False
    if contract is not None:
        cin = None
        for cname, c in doc_in["contracts"].items():
            if cname.split("/")[-1].split(":")[-1] == contract:
                cin = c.get("asm")
        pairs = [("<selected>", cin, doc_out)]
    else:
        if doc_out.get("version") != doc_in.get("version"):
            return bad("compiler version changed")
        if list(doc_out.get("contracts", {}).keys()) != list(doc_in["contracts"].keys()):
            if set(doc_out.get("contracts", {}).keys()) != set(doc_in["contracts"].keys()):
                return bad("set of contracts changed", got=list(doc_out.get("contracts", {}))[:5])
        pairs = []
        for cname, c in doc_in["contracts"].items():
            co = doc_out["contracts"][cname]
            if not c.get("asm"):
                if co.get("asm"):
                    return bad("contract without assembly gained assembly")
                continue
            if not co.get("asm"):
                return bad("contract lost its assembly")
            pairs.append((cname, c["asm"], co["asm"]))
    ok = True
    for cname, ain, aout in pairs:
        if ain is None or not isinstance(aout, dict):
            return bad("selected contract not emitted")
        if ain.get("sourceList") != aout.get("sourceList"):
            ok = bad("sourceList changed", contract=cname)
        streams = [("init", ain.get(".code", []), aout.get(".code"))]
        din, dout = ain.get(".data", {}), aout.get(".data", {})
        if set(din.keys()) != set(dout.keys()):
            ok = bad("data section ids changed", contract=cname)
            continue
        for did, d in din.items():
            o = dout[did]
            if isinstance(d, dict):
                if not isinstance(o, dict):
                    ok = bad("data entry changed kind", contract=cname)
                    continue
                for k in set(d.keys()) | set(o.keys()):
                    if k == ".code":
                        continue
                    if d.get(k) != o.get(k):
                        ok = bad("data field %s changed" % (k if k in (".auxdata", ".data") else "other"), contract=cname)
                if ".code" in d:
                    streams.append(("run:" + did, d[".code"], o.get(".code")))
            elif d != o:
                ok = bad("data string changed", contract=cname)
        for sname, iin, iout in streams:
            counts["streams"] = counts.get("streams", 0) + 1
            if not isinstance(iout, list):
                ok = bad("code stream missing", contract=cname, stream=sname)
                continue
            sk_in, seg_in = split_stream(iin, kinds)
            sk_out, seg_out = split_stream(iout, kinds)
            if sk_in != sk_out:
                k = next((i for i, (a, b) in enumerate(zip(sk_in, sk_out)) if a != b), min(len(sk_in), len(sk_out)))
                a = sk_in[k] if k < len(sk_in) else None
                b = sk_out[k] if k < len(sk_out) else None
                what = "missing/extra item" if a is None or b is None or a.get("name") != b.get("name") else \
                    "field %s changed" % next((f for f in sorted(set(a) | set(b)) if a.get(f) != b.get(f)), "?")
                ok = bad("skeleton differs: %s (%s)" % (what, (a or b).get("name")), contract=cname, stream=sname,
                         inp=a, out=b)
                continue
            counts["skeleton_items"] = counts.get("skeleton_items", 0) + len(sk_in)
            for s_in, s_out in zip(seg_in, seg_out):
                counts["segments"] = counts.get("segments", 0) + 1
                if s_in == s_out:
                    continue
                norm = lambda its: [("PUSH0", None) if clirun.item_pair(i) == ("PUSH", "0") and push0 else clirun.item_pair(i)
                                    for i in its]
                if norm(s_in) == norm(s_out) and all(all(a.get(f) == b.get(f) for f in ("begin", "end", "source")) for a, b in zip(s_in, s_out)):
                    continue      # only the documented PUSH0 spelling differs
                counts["segments_changed"] = counts.get("segments_changed", 0) + 1
                in_pairs = [clirun.item_pair(i) for i in s_in]
                for it in s_out:
                    counts["items_validated"] = counts.get("items_validated", 0) + 1
                    kind = "pseudo" if it.get("name") in gen.PSEUDO else "push" if it.get("name") in ("PUSH", "PUSH0") else \
                        "dupswap" if str(it.get("name", "")).startswith(("DUP", "SWAP")) else "op"
                    counts["items_" + kind] = counts.get("items_" + kind, 0) + 1
                    why = item_problem(it, in_pairs, push0)
                    if why:
                        import re
                        ok = bad("emitted item not well formed: " + re.sub(r"'[^']*'", "<name>", why), contract=cname,
                                 stream=sname, item=it, why=why)
                        break
    return ok


def reparse_equal(run, doc_out_text, opts, label, single=False):
    """the tool's own parser re-reads the emitted document to the same object (self-consistency);
    runs in a subprocess so that the push0 setting is the one of the run"""
    import subprocess, tempfile, os
    push0 = "-push0" not in opts
    with tempfile.NamedTemporaryFile("w", suffix=".json", delete=False) as f:
        f.write(doc_out_text)
        path = f.name
    code = ("import sys,json; sys.path.insert(0,'/repo'); import global_params.constants as c; c._set_push0(%r); "
            "from sfs_generator.parser_asm import parse_asm, parse_json_asm; "
            "o = parse_json_asm(sys.argv[1]).to_asm_json() if %r else parse_asm(sys.argv[1]).to_json(); "
            "print(json.dumps(o))" % (push0, single))
    try:
        p = subprocess.run([clirun.PY, "-c", code, path], stdout=subprocess.PIPE, stderr=subprocess.PIPE, timeout=300,
                           env={"PYTHONWARNINGS": "ignore", "PATH": os.environ.get("PATH", ""), "PYTHONDONTWRITEBYTECODE": "1"})
        if p.returncode != 0:
            run.witness("the tool's parser cannot re-read its own output", {"doc": label, "opts": opts,
                                                                          "err": p.stderr.decode()[-400:]})
            return False
        again = json.loads(p.stdout.decode())
        first = json.loads(doc_out_text)
        from monitors.c15 import canon, first_diff
        if single:
            again = {"contracts": {"x": {"asm": again}}, "version": "v"}
            first = {"contracts": {"x": {"asm": first}}, "version": "v"}
        # modulo the documented spelling of a zero push as PUSH0
        if first_diff(canon(first, push0), canon(again, push0)):
            run.witness("re-reading the emitted document does not give the same object", {"doc": label, "opts": opts})
            return False
        return True
    finally:
        os.unlink(path)
