"""C15 — parsing and serialization round-trip.

(a) to_json(parse_asm(D)) == D modulo the PUSH0 spelling, for shipped and synthesized documents;
(b) parse_plain(to_plain(B)) == B for generated blocks (both text renderings);
(c) every defined spelling of a constant parses to that constant.
Checked with push0 on and off (one setting per worker process).
"""
import glob
import json
import os
import random
import tempfile

from vlib import evm, gen, drive
from monitors import c01

COUNTS = {}


def _count(k, n=1):
    COUNTS[k] = COUNTS.get(k, 0) + n


def canon(doc, push0):
    """canonical form of an asm document for comparison: the only normalizations are the documented
    PUSH0 spelling (when enabled) and the two spellings of 'no assembly'."""
    def item(it):
        it = dict(it)
        if push0 and it.get("name") == "PUSH" and it.get("value") == "0":
            it["name"] = "PUSH0"
            del it["value"]
        return it

    def asm(a):
        if isinstance(a, dict):
            out = {}
            for k, v in a.items():
                if k == ".code" and isinstance(v, list):
                    out[k] = [item(x) for x in v]
                elif k == ".data" and isinstance(v, dict):
                    out[k] = {kk: (asm(vv) if isinstance(vv, dict) else vv) for kk, vv in v.items()}
                else:
                    out[k] = v
            return out
        return a
    out = {"version": doc.get("version"), "contracts": {}}
    for name, c in doc.get("contracts", {}).items():
        if c.get("asm") is None:
            out["contracts"][name] = {}
        else:
            out["contracts"][name] = {k: (asm(v) if k == "asm" else v) for k, v in c.items()}
    return out


def first_diff(a, b, path=""):
    if type(a) != type(b):
        return "%s: type %s vs %s" % (path, type(a).__name__, type(b).__name__)
    if isinstance(a, dict):
        for k in sorted(set(a) | set(b), key=str):
            if k not in a:
                return "%s/%s: missing in output" % (path, k) if False else "%s/%s: only in output" % (path, k)
            if k not in b:
                return "%s/%s: missing in output" % (path, k)
            d = first_diff(a[k], b[k], path + "/" + str(k))
            if d:
                return d
        return None
    if isinstance(a, list):
        if len(a) != len(b):
            return "%s: length %d vs %d" % (path, len(a), len(b))
        for i, (x, y) in enumerate(zip(a, b)):
            d = first_diff(x, y, "%s[%d]" % (path, i))
            if d:
                return d
        return None
    if a != b:
        return "%s: %r vs %r" % (path, a, b)
    return None


def diff_class(d):
    """mechanism class of a difference: kind of difference and the field it concerns"""
    import re
    path, _, tail = d.rpartition(": ")
    kind = "missing" if "missing" in tail else "extra" if "only in" in tail else "length" if "length" in tail else \
        "type" if tail.startswith("type") else "value"
    last = re.sub(r"\[\d+\]", "[]", path.split("/")[-1])
    if re.fullmatch(r"[0-9A-Fa-f]{40,}", last):
        last = "<hash key>"
    return "%s at field %s" % (kind, last)


def check_document(doc, push0, viols, label):
    fd, path = tempfile.mkstemp(suffix=".json_solc", dir=os.environ.get("GASOL_VERIF_SCRATCH"))
    with os.fdopen(fd, "w") as f:
        json.dump(doc, f)
    try:
        pa = drive.R["parser_asm"]
        try:
            out = pa.parse_asm(path).to_json()
        except Exception as e:
            viols.append({"fingerprint": "parse_asm/to_json raises %s" % type(e).__name__,
                          "witness": {"doc": label, "err": str(e)[:200]}})
            return
        _count("documents")
        _count("contracts", len(doc.get("contracts", {})))
        a, b = canon(doc, push0), canon(out, push0)
        d = first_diff(a, b)
        if d:
            viols.append({"fingerprint": "document round trip differs: " + diff_class(d),
                          "witness": {"doc": label, "first_difference": d[:300]}})
        n_items = 0
        for c in doc["contracts"].values():
            if c.get("asm"):
                n_items += len(c["asm"].get(".code", []))
                for v in c["asm"].get(".data", {}).values():
                    if isinstance(v, dict):
                        n_items += len(v.get(".code", []))
        _count("items", n_items)
        # single-contract (--asm-json) form
        for name, c in doc["contracts"].items():
            if c.get("asm"):
                fd2, p2 = tempfile.mkstemp(suffix=".json", dir=os.environ.get("GASOL_VERIF_SCRATCH"))
                with os.fdopen(fd2, "w") as f:
                    json.dump(c["asm"], f)
                try:
                    out2 = pa.parse_json_asm(p2).to_asm_json()
                    _count("single_contract_documents")
                    d2 = first_diff(canon({"contracts": {"x": {"asm": c["asm"]}}}, push0),
                                    canon({"contracts": {"x": {"asm": out2}}}, push0))
                    if d2:
                        viols.append({"fingerprint": "single-contract round trip differs: " + diff_class(d2),
                                      "witness": {"doc": label, "contract": name, "first_difference": d2[:300]}})
                except Exception as e:
                    viols.append({"fingerprint": "parse_json_asm/to_asm_json raises %s" % type(e).__name__,
                                  "witness": {"doc": label, "err": str(e)[:200]}})
                finally:
                    os.unlink(p2)
                break
    finally:
        os.unlink(path)


def norm_pairs(pairs, push0):
    out = []
    for n, v in pairs:
        if n == "tag":
            continue
        if n == "PUSH0" or (push0 and n == "PUSH" and v == "0"):
            out.append(("PUSH", "0"))
        elif n == "PUSH":
            out.append(("PUSH", "%x" % int(v, 16)))
        elif n in evm.PSEUDO_PUSH and v is not None and n != "PUSHLIB":
            # pseudo-push operands are compared as the number they denote in their kind's own format
            out.append((n, str(evm.pseudo_key(n, v))))
        else:
            out.append((n, v))
    return out


def check_text(block, push0, viols):
    pa = drive.R["parser_asm"]
    blocks = drive.build_blocks(gen.to_items(block))
    for b in blocks:
        want = norm_pairs([(bc.disasm, None if bc.value is None else str(bc.value)) for bc in b.instructions], push0)
        for label, text in (("to_plain", b.to_plain()), ("to_plain_with_byte_number", b.to_plain_with_byte_number())):
            if label == "to_plain_with_byte_number" and any(n in gen.PSEUDO or n == "ASSIGNIMMUTABLE" or n == "tag"
                                                            for n, _ in block):
                continue    # that rendering does not print pseudo-push operands (it is not an input format for them)
            try:
                back = pa.parse_blocks_from_plain_instructions(text)
            except Exception as e:
                viols.append({"fingerprint": "parse_plain(%s) raises %s" % (label, type(e).__name__),
                              "witness": {"text": text[:300], "err": str(e)[:200]}})
                continue
            _count("text_round_trips")
            got = []
            for bb in back:
                got += [(bc.disasm, None if bc.value is None else str(bc.value)) for bc in bb.instructions]
            got = norm_pairs(got, push0)
            if got != want:
                k = next((i for i, (x, y) in enumerate(zip(got, want)) if x != y), min(len(got), len(want)))
                viols.append({"fingerprint": "parse_plain(%s(B)) != B at %s" % (
                    label, (want[k][0] if k < len(want) else "end")),
                    "witness": {"text": text[:300], "got": got[k:k + 2], "want": want[k:k + 2]}})


def spellings(c, rnd):
    """(class, text) spellings with a defined meaning: PUSH v = hex; PUSHn v = decimal unless 0x-prefixed"""
    h = "%x" % c
    nb = max(1, (c.bit_length() + 7) // 8)
    out = [("PUSH hex", "PUSH " + h), ("PUSH hex upper", "PUSH " + h.upper()), ("PUSH hex leading zeros", "PUSH 00" + h),
           ("PUSH 0x-hex", "PUSH 0x" + h), ("PUSHn decimal", "PUSH%d %d" % (nb, c)),
           ("PUSHn decimal leading zeros", "PUSH%d 00%d" % (nb, c)), ("PUSHn 0x-hex", "PUSH%d 0x%s" % (nb, h)),
           ("PUSHn 0x-hex upper digits", "PUSH%d 0x%s" % (nb, h.upper())),
           ("PUSHn 0x-hex leading zeros", "PUSH%d 0x00%s" % (nb, h)),
           ("PUSHn wider n", "PUSH%d 0x%s" % (min(32, nb + rnd.randrange(0, 4)), h)),
           ("PUSH32 decimal", "PUSH32 %d" % c)]
    return out


def check_spellings(c, rnd, push0, viols):
    pa = drive.R["parser_asm"]
    for cls, text in spellings(c, rnd):
        full = "DUP1 " + text + " ADD"
        try:
            bl = pa.parse_blocks_from_plain_instructions(full)
            ins = bl[0].instructions[1]
        except Exception as e:
            viols.append({"fingerprint": "spelling '%s' raises %s" % (cls, type(e).__name__),
                          "witness": {"text": text, "err": str(e)[:200]}})
            continue
        _count("spellings")
        _count("spelling " + cls)
        if ins.disasm == "PUSH0" and ins.value is None:
            got = 0
        elif ins.disasm == "PUSH":
            try:
                got = int(ins.value, 16)
            except Exception:
                got = None
        else:
            got = None
        if got != c or len(bl[0].instructions) != 3:
            viols.append({"fingerprint": "spelling '%s' parses to another value" % cls,
                          "witness": {"text": text, "got": str(ins.value), "disasm": ins.disasm, "want": hex(c)}})


def handle(case):
    COUNTS.clear()
    drive.setup()
    params = c01.params_for(case["opts"])
    push0 = params.push0
    rnd = random.Random(case["sseed"])
    viols = []
    kind = case["kind"]
    if kind == "shipped":
        with open(case["path"]) as f:
            doc = json.load(f)
        check_document(doc, push0, viols, os.path.basename(case["path"]))
    elif kind == "document":
        doc = gen.gen_document(rnd)
        check_document(doc, push0, viols, "generated seed %d" % case["sseed"])
    elif kind == "text":
        for _ in range(case.get("n", 20)):
            b, _k = gen.gen_block(rnd)
            check_text(b, push0, viols)
    elif kind == "spelling":
        for _ in range(case.get("n", 20)):
            c = rnd.choice([0, 1, 255, 256, rnd.getrandbits(8 * rnd.randrange(1, 33)), gen.rand_const(rnd),
                            (1 << 256) - 1, 1 << (8 * rnd.randrange(0, 32))])
            check_spellings(c, rnd, push0, viols)
    res = {"viols": viols, "counts": dict(COUNTS)}
    if case.get("want_sample"):
        res["sample"] = {"kind": kind, "opts": case["opts"], "sseed": case["sseed"]}
    return res


def run():
    from vlib import findings
    from monitors import common
    r = findings.Run("C15")
    quick = common.tier() == "quick"
    rnd = random.Random(common.seed())
    shipped = sorted(glob.glob(os.environ.get("GASOL_VERIF_REPO", "/repo") + "/examples/jsons-solc/*.json_solc")) + \
        sorted(glob.glob(os.environ.get("GASOL_VERIF_REPO", "/repo") + "/tests/files/**/*.json_solc", recursive=True)) + \
        sorted(glob.glob(os.environ.get("GASOL_VERIF_REPO", "/repo") + "/tests/files/**/*.json", recursive=True))
    if quick:
        shipped = shipped[:8] + shipped[-4:]
    n_doc, n_text, n_sp = (60, 100, 40) if quick else (600, 1000, 400)
    cases = []
    for opts in (["-greedy"], ["-greedy", "-push0"]):
        g = " ".join(opts)
        for p in shipped:
            cases.append({"kind": "shipped", "path": p, "opts": opts, "_group": g, "sseed": 0, "_cpu": 120})
        for i in range(n_doc):
            cases.append({"kind": "document", "opts": opts, "_group": g, "sseed": rnd.getrandbits(30)})
        for i in range(n_text):
            cases.append({"kind": "text", "opts": opts, "_group": g, "sseed": rnd.getrandbits(30), "n": 20})
        for i in range(n_sp):
            cases.append({"kind": "spelling", "opts": opts, "_group": g, "sseed": rnd.getrandbits(30), "n": 20})
    for i, c in enumerate(cases):
        c["idx"] = i
    seen = set()
    for c in cases:
        if (c["kind"], c["_group"]) not in seen:
            seen.add((c["kind"], c["_group"]))
            c["want_sample"] = True
    col = common.Collector(r)
    st = common.run_pool("monitors.c15:handle", cases, col, cpu_budget=60.0)
    c = col.counts
    for need in ("documents", "text_round_trips", "spellings", "single_contract_documents"):
        if c.get(need, 0) == 0:
            r.inconclusive.append("!never reached: " + need)
    r.coverage.update({"documents_round_tripped": c.get("documents", 0), "contracts": c.get("contracts", 0),
                       "assembly_items": c.get("items", 0), "single_contract_documents": c.get("single_contract_documents", 0),
                       "text_round_trips": c.get("text_round_trips", 0), "spellings_checked": c.get("spellings", 0),
                       "spellings_per_class": {k[9:]: v for k, v in c.items() if k.startswith("spelling ")},
                       "shipped_documents": len(shipped), "cases_per_kind": dict(col.by_kind),
                       "cases_per_setting": dict(col.by_group), "pool": st})
    r.assumptions = ["{} and {\"asm\": null} are both 'contract without assembly' and are identified",
                     "only spellings with a defined meaning are asserted: PUSH v is hexadecimal, PUSHn v decimal unless 0x-prefixed",
                     "to_plain_with_byte_number is checked only for blocks without pseudo-pushes (it prints no operands for them)"]
    return r.finish(evaluations=c.get("documents", 0) + c.get("text_round_trips", 0) + c.get("spellings", 0),
                    distinct_nontrivial=c.get("documents", 0) + c.get("text_round_trips", 0),
                    rule="shipped + synthesized asm documents (nested .data, no-asm contracts in both spellings, all "
                         "pseudo-push kinds, optional jumpType/modifierDepth/sourceList), generated blocks through both text "
                         "renderings, constant spellings of every byte length; non-trivial = one document or one block "
                         "round trip (generated from distinct random seeds; spellings are counted in evaluations only)")
