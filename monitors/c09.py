"""C09 — non-optimizable code and metadata are preserved; emitted items are well formed.

The emitted *_optimized.json_solc of real CLI runs is read by an independent JSON reader and
compared with the input document (monitors/cli_props.check_output_document)."""
import glob
import json
import os
import random

from vlib import clirun, gen
from monitors import cli_props


def one(doc, opts, label, contract=None, single=False):
    o = list(opts)
    if contract:
        o += ["-c", contract]
    if single:
        o += ["-single-json"]
    res = clirun.run_cli(doc, o, timeout=1500, suffix=".json" if single else ".json_solc")
    return res


def run():
    from vlib import findings
    from monitors import common
    r = findings.Run("C09")
    quick = common.tier() == "quick"
    rnd = random.Random(common.seed() + 9)
    shipped = sorted(glob.glob(os.environ.get("GASOL_VERIF_REPO", "/repo") + "/examples/jsons-solc/*.json_solc"), key=os.path.getsize)
    # the three smallest in quick (a shipped contract takes minutes with -greedy), ten in thorough
    shipped = shipped[:3] if quick else shipped[:10]
    optsets = [["-greedy"], ["-greedy", "-size"], ["-greedy", "-storage"], ["-greedy", "-partition", "-push0"],
               ["-greedy", "-length"], ["-greedy", "-no-simplification"]]
    jobs = []
    for i, p in enumerate(shipped):
        with open(p) as f:
            doc = json.load(f)
        jobs.append((doc, optsets[i % 2], "shipped " + os.path.basename(p), None, False))
    n_gen = 24 if quick else 240
    for i in range(n_gen):
        doc = gen.gen_document(rnd, kinds=["rule", "grammar", "mem", "split", "wrap", "wrap", "zero", "identity", "tradeoff"])
        opts = optsets[i % len(optsets)]
        kind = i % 6
        if kind == 4:
            names = [c.split("/")[-1].split(":")[-1] for c, v in doc["contracts"].items() if v.get("asm")]
            jobs.append((doc, opts, "generated %d -c" % i, rnd.choice(names), False))
        elif kind == 5:
            c = next(v["asm"] for v in doc["contracts"].values() if v.get("asm"))
            jobs.append(({"contracts": {"contract": {"asm": c}}, "version": doc["version"], "_single": c}, opts,
                         "generated %d -single-json" % i, None, True))
        else:
            jobs.append((doc, opts, "generated %d" % i, None, False))

    def runjob(doc, opts, label, contract, single):
        return one(doc["_single"] if single else doc, opts, label, contract, single)
    results = cli_props.parallel(jobs, runjob)
    counts = {}
    docs_ok = 0
    for (doc, opts, label, contract, single), res in zip(jobs, results):
        counts["cli_runs"] = counts.get("cli_runs", 0) + 1
        if clirun.watchdog(res, r, label):
            continue
        if res.rc != 0:
            r.witness("CLI exits with status %s" % res.rc, {"doc": label, "opts": opts, "stderr": res.stderr_tail[-600:]})
            continue
        if single:
            out_text = res.text_file("_optimized.json")
        else:
            out_text = res.text_file("_optimized.json_solc")
        if out_text is None:
            r.witness("no optimized file emitted", {"doc": label, "opts": opts, "files": list(res.files)})
            continue
        try:
            out = json.loads(out_text)
        except Exception:
            r.witness("optimized file is not JSON", {"doc": label, "opts": opts})
            continue
        if single:
            # -single-json writes the contract's assembly alone
            ok = cli_props.check_output_document(r, {"contracts": {"x:contract": {"asm": doc["_single"]}}, "version": "v"},
                                                 out, opts, label, counts, contract="contract")
            ok = cli_props.reparse_equal(r, out_text, opts, label, single=True) and ok
        elif contract:
            ok = cli_props.check_output_document(r, doc, out, opts, label, counts, contract=contract)
            ok = cli_props.reparse_equal(r, out_text, opts, label, single=True) and ok
        else:
            ok = cli_props.check_output_document(r, doc, out, opts, label, counts)
            ok = cli_props.reparse_equal(r, out_text, opts, label) and ok
        docs_ok += bool(ok)
        if len(r.samples) < 3:
            r.add_sample({"doc": label, "opts": opts, "streams": counts.get("streams"), "changed_segments_so_far": counts.get("segments_changed")})
    for need in ("segments_changed", "items_validated", "skeleton_items"):
        if counts.get(need, 0) == 0:
            r.inconclusive.append("!never reached: " + need)
    r.coverage.update(dict(counts, documents_fully_consistent=docs_ok, shipped_documents=len(shipped)))
    r.assumptions = ["skeleton = tag/JUMPDEST/jump/terminal/split instructions (plus stores under -storage)",
                     "pseudo-push operands compared as text or as the number they denote in their kind's own format, "
                     "against the operands of the same kind in the same input segment"]
    return r.finish(evaluations=counts.get("cli_runs", 0), distinct_nontrivial=counts.get("segments_changed", 0),
                    rule="CLI runs (-greedy) on shipped and synthesized documents x option sets incl. -c and -single-json; "
                         "non-trivial = optimizable segment whose emitted items differ from the input (every item validated)")
