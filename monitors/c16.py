"""C16 — the numeric bounds published in a specification are valid.

For every specification the real front-end emits: a realizing sequence within (init_progr_len,
max_sk_sz) must exist — witnessed by the greedy result, by a symbolic replay of the original
sub-block, or by our bounded synthesizer (complete for small bounds; a budget overrun is
*inconclusive* for that specification and counted); min_length must not exceed the length of any
realizing sequence seen; original_instrs must be the sub-block's instruction sequence.
"""
import copy
import random

from vlib import evm, gen, drive, sfs_eval
from monitors import c01, c03

COUNTS = {}


def _count(k, n=1):
    COUNTS[k] = COUNTS.get(k, 0) + n


def replay_original(S, seg_pairs):
    """Map the original instruction segment to spec ids by symbolic execution over spec variables.
    Returns an id list or None when some instruction has no counterpart (dead code, rewritten terms)."""
    byid = sfs_eval.by_id(S)
    st = list(S["src_ws"])
    ids = []
    need, _ = evm.stack_effect(seg_pairs)
    if need > len(st):
        return None
    pushes = {}
    for ins in S["user_instrs"]:
        d = ins["disasm"]
        if d == "PUSH":
            pushes.setdefault(("PUSH", int(ins["value"][0])), ins)
        elif d == "PUSH0":
            pushes.setdefault(("PUSH", 0), ins)
        elif d in evm.PSEUDO_PUSH:
            v = ins.get("value")
            pushes.setdefault((d, str(v[0]) if v else None), ins)
    used_once = set()
    for name, value in seg_pairs:
        if name == "PUSH" or name == "PUSH0":
            c = 0 if name == "PUSH0" else int(value, 16)
            ins = pushes.get(("PUSH", c))
            if ins is None:
                return None
            st.insert(0, ins["outpt_sk"][0])
            ids.append(ins["id"])
        elif name in evm.PSEUDO_PUSH:
            key = None if value is None else str(evm.pseudo_key(name, value))
            ins = pushes.get((name, key))
            if ins is None:
                return None
            st.insert(0, ins["outpt_sk"][0])
            ids.append(ins["id"])
        elif name.startswith("DUP"):
            k = int(name[3:])
            if len(st) < k:
                return None
            st.insert(0, st[k - 1])
            ids.append(name)
        elif name.startswith("SWAP"):
            k = int(name[4:])
            if len(st) < k + 1:
                return None
            st[0], st[k] = st[k], st[0]
            ids.append(name)
        elif name == "POP":
            if not st:
                return None
            st.pop(0)
            ids.append("POP")
        else:
            p, q = evm.ARITY[name]
            if len(st) < p:
                return None
            args = st[:p]
            cand = None
            for ins in S["user_instrs"]:
                if ins["disasm"] != name or ins["id"] in used_once:
                    continue
                inp = ins.get("inpt_sk", [])
                if len(inp) != p:
                    continue
                if list(inp) == args or (ins.get("commutative") and p == 2 and [inp[1], inp[0]] == args):
                    cand = ins
                    break
            if cand is None:
                return None
            if cand.get("storage") or cand["disasm"] in sfs_eval.LOADS:
                used_once.add(cand["id"])
            del st[:p]
            for o in reversed(cand.get("outpt_sk", [])):
                st.insert(0, o)
            ids.append(cand["id"])
    return ids


def classify_missing(S, rnd):
    """why is there no realizing sequence within the published bounds?"""
    b, mh = S["init_progr_len"], S["max_sk_sz"]
    try:
        q = sfs_eval.synthesize(S, b + 4, mh + 4, node_budget=3000000)
    except sfs_eval.Budget:
        return "unknown (budget)", None
    if q is None:
        try:
            sfs_eval.linearizations(S, rnd, limit=1, n_random=0)
        except sfs_eval.SpecError:
            return "none at all: cyclic ordering constraints", None
        try:
            q = sfs_eval.synthesize(S, max(b, 0) + 12, mh + 6, node_budget=3000000)
        except sfs_eval.Budget:
            return "unknown (budget)", None
        if q is None:
            return "none even with 12 more instructions and 6 more stack slots", None
    try:
        q2 = sfs_eval.synthesize(S, b, mh + 4, node_budget=3000000)
    except sfs_eval.Budget:
        q2 = None
    if q2 is not None:
        return "max_sk_sz too small", q2
    return "init_progr_len too small (shortest needs %+d)" % (len(q) - b), q


def check_spec(key, S, seg_pairs, seg_tokens, rnd, viols, opts, small_bound, budget):
    _count("specs")
    b, mh = S["init_progr_len"], S["max_sk_sz"]
    rules = ",".join(sorted(set(c01.norm_rule(r) for r in S.get("rules", [])))) or "-"
    # (c) original_instrs
    want = " ".join(seg_tokens)
    norm = lambda s: " ".join("PUSH %x" % int(t, 16) if prev == "PUSH" and _ishex(t) else t
                              for prev, t in zip([""] + s.split(" "), s.split(" "))) if False else s
    if S.get("original_instrs", "").split() != want.split():
        viols.append({"fingerprint": "original_instrs differs from the sub-block",
                      "witness": {"key": key, "original_instrs": S.get("original_instrs"), "sub_block": want}})
    witnesses = []
    # source 1: greedy
    gm = drive.R["greedy"]
    try:
        out = gm.greedy_from_json(copy.deepcopy(S))
        if out[4] == 0 and out[3] is not None and sfs_eval.realizes(S, out[3]) is None:
            witnesses.append(("greedy", list(out[3])))
    except Exception:
        pass
    # source 2: replay of the original segment
    try:
        ids = replay_original(S, seg_pairs)
        if ids is not None and sfs_eval.realizes(S, ids) is None:
            witnesses.append(("original", ids))
    except Exception:
        pass
    inbound = [w for w in witnesses if sfs_eval.realizes(S, w[1], check_len=True, check_height=True) is None]
    shortest = None
    complete = False
    if inbound:
        _count("witness_" + inbound[0][0])
    if b <= small_bound or not inbound:
        if b <= small_bound + 2:
            try:
                q = sfs_eval.synthesize(S, b, mh, node_budget=budget)
                complete = True
                _count("exhaustive_searches")
                if q is not None:
                    shortest = q
                    if not inbound:
                        _count("witness_synthesized")
                    inbound.append(("synth", q))
            except sfs_eval.Budget:
                _count("search_budget_exhausted")
    if not inbound:
        if complete:
            why, q = classify_missing(S, rnd)
            if why.startswith("unknown"):
                _count("violation_unclassified_budget")
                return
            # mechanism hint: an operation with >= 2 operands whose result is never used is dropped from the
            # specification, so the spec needs one POP per operand where the block had a single instruction
            import collections
            seg_ops = collections.Counter(n for n, _ in seg_pairs if n in evm.ARITY and evm.ARITY[n][0] >= 2
                                          and evm.ARITY[n][1] == 1 and not n.startswith(("DUP", "SWAP")))
            spec_ops = collections.Counter(i["disasm"] for i in S["user_instrs"])
            dead = sorted(n for n in seg_ops if seg_ops[n] > spec_ops.get(n, 0))
            if dead and rules == "-" and why.startswith("init_progr_len"):
                rules = "- (dead multi-operand operation dropped from the specification)"
            # mechanism hint: the block computes the same load / hash more than once (nothing conflicting in between); the
            # specification has one instruction for it, and reusing its value takes more instructions (DUP, SWAPs)
            # than computing it again, which the dependences of the specification do not always allow
            seg_loads = collections.Counter(n for n, _ in seg_pairs if n in ("SLOAD", "MLOAD", "KECCAK256", "SHA3"))
            unified = sorted(n for n in seg_loads if seg_loads[n] > max(1, spec_ops.get(n, 0)) or
                             (seg_loads[n] > spec_ops.get(n, 0) and spec_ops.get(n, 0) >= 1))
            if unified and not dead and rules == "-" and why.startswith("init_progr_len"):
                rules = "- (repeated load unified into one instruction)"
            viols.append({"fingerprint": "no realizing sequence within the published bounds: %s rules=%s" % (
                why.split(" (")[0] if why.startswith("init_progr_len") else why, rules),
                "witness": {"key": key, "segment": evm.to_plain_string(seg_pairs), "init_progr_len": b, "max_sk_sz": mh,
                            "why": why, "shortest_found": q, "spec": S}})
        else:
            _count("inconclusive_no_witness")
        return
    _count("specs_with_witness")
    # (b) min_length
    ml = S.get("min_length")
    if isinstance(ml, int):
        allw = witnesses + ([("synth", shortest)] if shortest else [])
        for src, q in allw:
            n = len([x for x in q if x != "NOP"])
            if ml > n:
                viols.append({"fingerprint": "min_length exceeds the length of a realizing sequence (source %s) rules=%s" % (
                    src if src != "synth" else "synthesizer", rules),
                    "witness": {"key": key, "min_length": ml, "min_length_instrs": S.get("min_length_instrs"),
                                "min_length_bounds": S.get("min_length_bounds"), "sequence": q, "len": n,
                                "segment": evm.to_plain_string(seg_pairs), "spec": S}})
                break
        _count("min_length_checks", len(allw))


def _ishex(t):
    try:
        int(t, 16)
        return True
    except ValueError:
        return False


def handle(case):
    COUNTS.clear()
    block = [tuple(x) for x in case["block"]]
    opts = case["opts"]
    rnd = random.Random(case.get("sseed", 0))
    drive.setup()
    params = c01.params_for(opts)
    ga = drive.R["gasol_asm"]
    viols = []
    blocks = drive.build_blocks(gen.to_items(block))
    sample = None
    for b in blocks:
        if b.instructions_to_optimize_plain() == []:
            continue
        try:
            sfs, sub = ga.compute_original_sfs_with_simplifications(b, params)
        except Exception:
            _count("front_end_exception")
            continue
        contract = copy.deepcopy(sfs["syrup_contract"])
        segs = c03.segments_of(sub)
        for i, seg in enumerate(segs):
            key = "%s_%d" % (b.block_name, i)
            if key not in contract:
                continue
            S = contract[key]
            sp = evm.from_plain_tokens(seg)
            try:
                check_spec(key, S, sp, seg, rnd, viols, opts, case.get("small_bound", 6), case.get("budget", 150000))
            except Exception as e:
                _count("monitor_internal_error")
                COUNTS["monitor_internal_error_msg"] = "%s: %s" % (type(e).__name__, str(e)[:100])
            if sample is None:
                sample = {"segment": evm.to_plain_string(sp), "init_progr_len": S["init_progr_len"],
                          "max_sk_sz": S["max_sk_sz"], "min_length": S.get("min_length"), "rules": S.get("rules")}
    drive.clean_scratch()
    res = {"viols": viols, "counts": dict(COUNTS)}
    if case.get("want_sample") and sample:
        res["sample"] = sample
    return res


def run():
    from vlib import findings
    from monitors import common
    r = findings.Run("C16")
    quick = common.tier() == "quick"
    n = 4000 if quick else 40000
    opts = [["-greedy"], ["-greedy", "-size"], ["-greedy", "-partition"], ["-greedy", "-storage"],
            ["-greedy", "-no-simplification"], ["-greedy", "-length", "-push0"]]
    cases = common.gen_cases(n, common.seed(), opts, kinds=["rule", "rule", "short", "short", "grammar", "mem", "split", "tiny", "tiny", "identity"],
                             extra={"small_bound": 6 if quick else 7, "budget": 120000 if quick else 400000})
    col = common.Collector(r)
    st = common.run_pool("monitors.c16:handle", cases, col, cpu_budget=60.0)
    c = col.counts
    for need in ("specs", "specs_with_witness", "exhaustive_searches", "min_length_checks"):
        if c.get(need, 0) == 0:
            r.inconclusive.append("!never reached: " + need)
    if c.get("monitor_internal_error", 0):
        r.inconclusive.append("!monitor internal error %s" % [k for k in c if k.startswith("monitor_internal_error_msg")][:2])
    r.coverage.update({"specifications": c.get("specs", 0), "specs_with_a_witness_within_bounds": c.get("specs_with_witness", 0),
                       "witness_by_source": {k[8:]: v for k, v in c.items() if k.startswith("witness_")},
                       "exhaustive_searches_completed": c.get("exhaustive_searches", 0),
                       "search_budget_exhausted": c.get("search_budget_exhausted", 0),
                       "specs_inconclusive_no_witness_found": c.get("inconclusive_no_witness", 0),
                       "min_length_comparisons": c.get("min_length_checks", 0),
                       "front_end_exceptions_contained": c.get("front_end_exception", 0),
                       "blocks_per_option_set": dict(col.by_group), "blocks_per_generator": dict(col.by_kind),
                       "spec_rule_tags_seen": {k[5:]: v for k, v in sorted(col.fired.items()) if k.startswith("spec:")},
                       "budget_exceeded_cases": {k: v for k, v in col.stat.items() if k.startswith("budget_")}, "pool": st})
    r.assumptions = ["vlib/sfs_eval.realizes and the bounded synthesizer (complete up to the bound unless its node budget is hit)",
                     "a specification for which no witness is found and the search is not complete is inconclusive, not a violation"]
    return r.finish(evaluations=c.get("specs", 0), distinct_nontrivial=c.get("specs_with_witness", 0) + len(r.violations),
                    rule="every specification emitted for generated blocks (rule-directed, short, grammar, memory, split); "
                         "non-trivial = specification for which the existence question was decided (witness within bounds, or "
                         "complete search)")
