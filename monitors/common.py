"""Parent-side helpers shared by the per-property monitors."""
import collections
import os
import random
import shutil
import tempfile
import time

from vlib import pool, gen, evm

GREEDY_OPTS = [["-greedy"], ["-greedy", "-storage"], ["-greedy", "-partition"], ["-greedy", "-size"],
               ["-greedy", "-length"], ["-greedy", "-no-simplification"], ["-greedy", "-push0"],
               ["-greedy", "-size", "-partition"], ["-greedy", "-length", "-storage", "-push0"],
               ["-greedy", "-no-simplification", "-partition", "-size"]]


def tier():
    t = os.environ.get("VERIF_TIER", "quick")
    return t if t in ("quick", "thorough") else "quick"


def seed():
    try:
        return int(os.environ.get("VERIF_SEED", "0") or 0)
    except ValueError:
        return 0


def gen_cases(n, seed_, opts_sets, kinds=None, k_states=24, extra=None):
    rnd = random.Random(seed_)
    cases = []
    for i in range(n):
        b, kind = gen.gen_block(rnd, rnd.choice(kinds) if kinds else None)
        o = opts_sets[i % len(opts_sets)]
        c = {"block": b, "opts": o, "sseed": rnd.getrandbits(30), "kind": kind, "_group": " ".join(o),
             "k": k_states, "idx": i}
        if extra:
            c.update(extra)
        cases.append(c)
    cases.sort(key=lambda c: c["_group"])
    # a few samples per group for the evidence file
    seen = set()
    for c in cases:
        if c["_group"] not in seen:
            seen.add(c["_group"])
            c["want_sample"] = True
    return cases


class Collector:
    """Aggregates worker results."""

    def __init__(self, run):
        self.run = run
        self.stat = collections.Counter()
        self.counts = collections.Counter()
        self.fired = collections.Counter()
        self.by_group = collections.Counter()
        self.by_kind = collections.Counter()
        self.ops = set()
        self.distinct = set()
        self.fails = []

    def __call__(self, idx, case, res):
        if "_fail" in res:
            self.stat["budget_" + res["_fail"]] += 1
            self.fails.append({"fail": res["_fail"], "cpu": res.get("cpu"),
                               "block": evm.to_plain_string([tuple(x) for x in case.get("block", [])])[:400],
                               "opts": case.get("opts")})
            return
        if "_handler_exception" in res:
            self.stat["handler_exception"] += 1
            self.run.inconclusive.append("!handler exception: " + res["_handler_exception"][:200])
            self.fails.append({"handler_exception": res["_handler_exception"], "tb": res.get("_tb", "")[-600:]})
            return
        self.stat["ok"] += 1
        self.by_group[case.get("_group", "")] += 1
        self.by_kind[case.get("kind", "")] += 1
        for k, v in (res.get("fired") or {}).items():
            self.fired[k] += v
        for k, v in (res.get("counts") or {}).items():
            if isinstance(v, int):
                self.counts[k] += v
            else:
                self.counts["%s=%s" % (k, v)] += 1
        for r in res.get("rules", []) or []:
            self.fired["spec:" + r] += 1
        for v in res.get("viols", []) or []:
            w = dict(v["witness"], opts=case.get("opts"), case_idx=case.get("idx"))
            if "block" in case and "block" not in w:
                try:
                    w["block"] = evm.to_plain_string([tuple(x) for x in case["block"]])
                except Exception:
                    w["block"] = case["block"]
            self.run.witness(v["fingerprint"], w)
        if res.get("sample"):
            self.run.add_sample(res["sample"])
        self.custom(idx, case, res)

    def custom(self, idx, case, res):
        pass


def run_pool(handler, cases, collector, cpu_budget=15.0, deadline_s=None, nworkers=None):
    scratch = tempfile.mkdtemp(prefix="gasol_verif_")
    try:
        st = pool.run_cases(handler, cases, nworkers=nworkers, cpu_budget=cpu_budget,
                            env_extra={"GASOL_VERIF_SCRATCH": scratch}, on_result=collector,
                            deadline=(time.time() + deadline_s) if deadline_s else None)
    finally:
        shutil.rmtree(scratch, ignore_errors=True)
    return st
