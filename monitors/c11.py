"""C11 — log replay reproduces the optimized code and rejects tampered logs.

Round trip: CLI run with -log, then -optimize-from-log with the same input and options; the two
emitted files must be byte-identical.  Tampering: the log is edited (id substitution, deletion,
duplication, swap, truncation, re-keying, DUP/SWAP index change); replay must stop with an
error or emit code that the reference interpreter cannot tell from the input."""
import json
import random

from vlib import clirun, gen, evm
from monitors import cli_props


KINDS = ["subst-same", "subst-other", "delete", "duplicate", "swap", "truncate", "rekey", "dupswap-index",
         "insert-foreign", "empty-entry", "empty-block", "drop-entry", "drop-block", "reverse", "empty-all"]


def tamper(log, rnd, kind=None):
    """returns (kind, new log) or None"""
    keys = [k for k, v in log.items() if v]
    if not keys:
        return None
    k = rnd.choice(keys)
    ids = list(log[k])
    kind = kind or rnd.choice(KINDS)
    new = {a: list(b) for a, b in log.items()}
    i = rnd.randrange(len(ids))
    block_of = lambda key: key.rsplit("_", 1)[0]
    if kind in ("empty-entry", "empty-block", "drop-entry", "drop-block", "empty-all", "reverse"):
        # whole-entry and whole-block edits: an entry (or every sub-block entry of one block, or of every block)
        # emptied or removed; an entry reversed
        same_block = [kk for kk in log if block_of(kk) == block_of(k)]
        if kind == "empty-entry":
            new[k] = []
        elif kind == "empty-block":
            for kk in same_block:
                new[kk] = []
        elif kind == "drop-entry":
            del new[k]
        elif kind == "drop-block":
            for kk in same_block:
                del new[kk]
        elif kind == "empty-all":
            new = {kk: [] for kk in log}
        else:
            if len(ids) < 2 or ids == ids[::-1]:
                return None
            new[k] = ids[::-1]
        return (kind, new) if new != log else None
    if kind == "subst-same":
        others = [x for x in ids if x != ids[i]]
        if not others:
            return None
        ids[i] = rnd.choice(others)
    elif kind == "subst-other":
        ok = [x for kk in keys if kk != k for x in log[kk]]
        if not ok:
            return None
        ids[i] = rnd.choice(ok)
    elif kind == "delete":
        del ids[i]
    elif kind == "duplicate":
        ids.insert(i, ids[i])
    elif kind == "swap":
        if len(ids) < 2:
            return None
        j = min(i, len(ids) - 2)
        if ids[j] == ids[j + 1]:
            return None
        ids[j], ids[j + 1] = ids[j + 1], ids[j]
    elif kind == "truncate":
        ids = ids[:i]
    elif kind == "rekey":
        other = [kk for kk in log if kk != k]
        if not other:
            return None
        k2 = rnd.choice(other)
        new[k2], new[k] = list(log[k]), list(log[k2])
        return kind, new
    elif kind == "dupswap-index":
        cand = [j for j, x in enumerate(ids) if x.startswith(("DUP", "SWAP")) and x[-1].isdigit()]
        if not cand:
            return None
        j = rnd.choice(cand)
        base = "DUP" if ids[j].startswith("DUP") else "SWAP"
        n = int(ids[j][len(base):])
        n2 = n + rnd.choice([1, -1])
        if not 1 <= n2 <= 16:
            return None
        ids[j] = base + str(n2)
    elif kind == "insert-foreign":
        ok = [x for kk in keys if kk != k for x in log[kk]]
        if not ok:
            return None
        ids.insert(i, rnd.choice(ok))
    new[k] = ids
    if new == log:
        return None
    return kind, new


def equivalent_documents(run, doc_in, doc_out, opts, label, rnd, counts, kind):
    """every optimizable segment of doc_out must be indistinguishable from the input's; skeleton equal"""
    c9 = {}
    import vlib.findings as F
    probe = F.Run("C11")          # collect skeleton problems without reporting them twice
    probe.known = []
    ok = cli_props.check_output_document(probe, doc_in, doc_out, opts, label, c9)
    if probe.violations:
        run.witness("tampered log (%s) accepted: output skeleton/items differ from the input" % kind,
                    {"doc": label, "problem": probe.violations[0][0], "detail": probe.violations[0][1], "opts": opts})
        return False
    kinds = cli_props.skeleton_kinds(opts)
    for (cn, k1, d1, items_in), (_, _, _, items_out) in zip(clirun.code_streams(doc_in), clirun.code_streams(doc_out)):
        _, seg_in = cli_props.split_stream(items_in, kinds)
        _, seg_out = cli_props.split_stream(items_out, kinds)
        for a, b in zip(seg_in, seg_out):
            pa, pb = [clirun.item_pair(i) for i in a], [clirun.item_pair(i) for i in b]
            if pa == pb:
                continue
            counts["segments_compared_by_execution"] = counts.get("segments_compared_by_execution", 0) + 1
            try:
                need, delta = evm.stack_effect(pa)
                need2, delta2 = evm.stack_effect(pb)
            except KeyError:
                run.witness("tampered log (%s) accepted: unknown opcode emitted" % kind, {"doc": label})
                return False
            if need2 > need or delta2 != delta:
                run.witness("tampered log (%s) accepted: emitted segment has another stack effect" % kind,
                            {"doc": label, "in": evm.to_plain_string(pa), "out": evm.to_plain_string(pb)})
                return False
            for st in gen.sample_states(rnd, pa, 24, need):
                why = evm.distinguishes(pa, pb, st)
                if why:
                    run.witness("tampered log (%s) accepted: emitted code differs in behaviour from the input" % kind,
                                {"doc": label, "in": evm.to_plain_string(pa), "out": evm.to_plain_string(pb),
                                 "state": st.to_json(), "difference": why})
                    return False
    return True


def run():
    from vlib import findings
    from monitors import common
    r = findings.Run("C11", level="fault_enumeration")
    quick = common.tier() == "quick"
    rnd = random.Random(common.seed() + 11)
    n_docs = 6 if quick else 40
    n_tamper = 18 if quick else 60
    import os
    standin = os.path.join(os.path.dirname(os.path.dirname(os.path.abspath(__file__))), "vlib", "standin_solver")
    optsets = [["-greedy"], ["-greedy", "-size"], ["-greedy", "-partition"], ["-greedy", "-storage", "-push0"]]
    docs = [(gen.gen_document(rnd, n_contracts=rnd.randrange(1, 3)), optsets[i % len(optsets)], None) for i in range(n_docs)]
    # solver back-end with the greedy bound (-ub-greedy) through the stand-in solver: small documents
    for i in range(2 if quick else 10):
        d = gen.gen_document(rnd, n_contracts=1, blocks_per_stream=2, kinds=["short", "short", "zero"], nested=False)
        env = {"GASOL_VERIF_SOLVER": standin, "GASOL_VERIF_SOLVER_MODE": "optimal" if i % 2 == 0 else "model:3"}
        docs.append((d, ["-solver", "z3", "-ub-greedy"], env))
    envs = {id(d): e for d, o, e in docs}
    first = cli_props.parallel([(d, o + ["-log"], e) for d, o, e in docs],
                               lambda d, o, e: clirun.run_cli(d, o, timeout=1200, env_extra=e))
    docs = [(d, o) for d, o, e in docs]
    counts = {"round_trips": 0, "round_trips_identical": 0, "log_entries": 0, "tampered_logs": 0, "tampered_rejected": 0,
              "tampered_accepted_equivalent": 0}
    replay_jobs = []
    meta = []
    for i, ((doc, opts), res) in enumerate(zip(docs, first)):
        label = "generated document %d" % i
        if clirun.watchdog(res, r, label):
            continue
        if res.rc != 0:
            r.witness("CLI run with -log failed (rc=%s)" % res.rc, {"doc": label, "opts": opts, "stderr": res.stderr_tail[-500:]})
            continue
        log_text = res.text_file("input.log")
        opt_text = res.text_file("_optimized.json_solc")
        if log_text is None or opt_text is None:
            r.witness("log or optimized file missing", {"doc": label, "files": list(res.files)})
            continue
        log = json.loads(log_text)
        counts["log_entries"] += len(log)
        replay_jobs.append((doc, opts + ["-optimize-from-log", "the.log"], {"the.log": log_text}, envs.get(id(doc))))
        meta.append(("roundtrip", label, doc, opts, opt_text, None))
        for t in range(n_tamper):
            # every kind at least once per document (when applicable), then random ones
            tm = tamper(log, rnd, KINDS[t] if t < len(KINDS) else None)
            if tm is None:
                continue
            kind, new = tm
            replay_jobs.append((doc, opts + ["-optimize-from-log", "the.log"], {"the.log": json.dumps(new)}, envs.get(id(doc))))
            meta.append(("tamper", label, doc, opts, opt_text, kind))
    results = cli_props.parallel(replay_jobs, lambda d, o, extra, e: clirun.run_cli(d, o, timeout=900, extra_files=extra, env_extra=e))
    by_kind = {}
    for (what, label, doc, opts, opt_text, kind), res in zip(meta, results):
        out_text = res.text_file("_optimized_from_log.json_solc")
        if clirun.watchdog(res, r, "replay of " + label):
            continue
        if what == "roundtrip":
            counts["round_trips"] += 1
            if res.rc != 0 or out_text is None:
                r.witness("replay of an untouched log fails (rc=%s)" % res.rc,
                          {"doc": label, "opts": opts, "stderr": res.stderr_tail[-600:], "stdout": res.stdout[-300:]})
                continue
            if out_text != opt_text:
                r.witness("replay of an untouched log does not reproduce the optimized file byte for byte",
                          {"doc": label, "opts": opts})
                continue
            counts["round_trips_identical"] += 1
            if len(r.samples) < 2:
                r.add_sample({"doc": label, "opts": opts, "bytes": len(out_text)})
        else:
            counts["tampered_logs"] += 1
            by_kind[kind] = by_kind.get(kind, 0) + 1
            if res.rc != 0 or out_text is None:
                counts["tampered_rejected"] += 1
                continue
            try:
                out = json.loads(out_text)
            except Exception:
                r.witness("tampered log (%s) accepted: output is not JSON" % kind, {"doc": label})
                continue
            if equivalent_documents(r, doc, out, opts, label, rnd, counts, kind):
                counts["tampered_accepted_equivalent"] += 1
    for need in ("round_trips_identical", "tampered_logs", "tampered_rejected", "log_entries"):
        if counts.get(need, 0) == 0:
            r.inconclusive.append("!never reached: " + need)
    r.coverage.update(dict(counts, tampered_by_kind=by_kind))
    r.assumptions = ["a non-zero exit status (ValueError('Error parsing the log file...') or any other error) is an accepted "
                     "outcome for a tampered log; only silent behavioural change counts",
                     "equivalence of accepted replays is decided by vlib/evm.py on sampled states, segment by segment"]
    return r.finish(evaluations=counts["round_trips"] + counts["tampered_logs"],
                    distinct_nontrivial=counts["tampered_logs"] + counts["round_trips_identical"],
                    rule="CLI -log then -optimize-from-log on synthesized documents x option sets; tampered logs by 9 edit "
                         "kinds; non-trivial = one replay (untouched log reproduced, or one distinct tampered log)")
