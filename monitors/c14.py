"""C14 — splitting partitions the block; rebuilding with nothing optimized is identity.

Post-conditions evaluated on the real splitters (evm2rbr_compiler via
compute_original_sfs_with_simplifications, and get_subblocks) and on
rebuild_optimized_asm_block, for generated blocks under the three splitting policies.
"""
import copy
import random

from vlib import evm, gen, drive
from monitors import c01

BEGIN = {"tag", "JUMPDEST"}
END = {"JUMP", "JUMPI", "STOP", "RETURN", "REVERT", "INVALID", "SELFDESTRUCT"}
COUNTS = {}


def _count(k, n=1):
    COUNTS[k] = COUNTS.get(k, 0) + n


def plain_token(n, v, push0):
    if n == "PUSH" and v == "0" and push0:
        return "PUSH0"
    if v is None or "JUMP" in n:
        return n
    return "%s %s" % (n, v)


def token_pair(tok):
    return evm.from_plain_tokens([tok])[0]


def handle(case):
    COUNTS.clear()
    drive.setup()
    params = c01.params_for(case["opts"])
    push0 = params.push0
    block = [tuple(x) for x in case["block"]]
    rnd = random.Random(case.get("sseed", 0))
    items = []
    if rnd.random() < 0.6:
        items.append({"name": "tag", "value": str(rnd.randrange(1, 50)), "begin": 0, "end": 0, "source": 0})
        items.append({"name": "JUMPDEST", "begin": 0, "end": 0, "source": 0})
    items += gen.to_items(block, begin=10)
    viols = []
    ga, irb, rb = drive.R["gasol_asm"], drive.R["ir_block"], drive.R["rebuild"]
    AsmBytecode = drive.R["gasol_asm"].AsmBytecode
    blocks = drive.build_blocks(items)
    res = {"nblocks": len(blocks)}

    def bad(fp, **w):
        viols.append({"fingerprint": fp, "witness": dict(w, block=case["block"], opts=case["opts"])})

    for b in blocks:
        pairs = drive.asm_pairs(b)
        # plain rendering convention: PUSHLIB carries its per-block index, not the library reference
        plain_pairs = [(bc.disasm, None if bc.value is None else str(bc.value)) for bc in b.instructions]
        optimizable = [plain_token(n, v, push0) for n, v in plain_pairs if n not in BEGIN and n not in END]
        if not optimizable:
            continue
        _count("blocks")
        try:
            sfs, sub = ga.compute_original_sfs_with_simplifications(b, params)
            sub = copy.deepcopy(sub)
            contract = copy.deepcopy(sfs["syrup_contract"])
        except Exception as e:
            _count("front_end_exception")
            continue
        try:
            sub2 = irb.get_subblocks({"instructions": b.instructions_to_optimize_plain(), "input": b.source_stack},
                                     storage=params.split_storage, part=params.split_partition)
        except Exception:
            sub2 = None
            _count("get_subblocks_exception")
        _count("subblocks", len(sub))
        if len(sub) > 1:
            _count("blocks_split")
        # (1) the two splitters agree
        if sub2 is not None and sub2 != sub:
            bad("the two splitters disagree", sub=sub, sub2=sub2)
        # (2) join at the shared split instruction reproduces the optimizable sequence
        joined = list(sub[0]) if sub else []
        okjoin = True
        for i in range(1, len(sub)):
            if not sub[i] or not sub[i - 1] or sub[i][0] != sub[i - 1][-1]:
                okjoin = False
                break
            joined += sub[i][1:]
        # the reported lists drop the operand of ASSIGNIMMUTABLE (a rendering convention of the splitter:
        # rebuild re-uses the original item for every split instruction); compared modulo that operand
        strip = lambda t: "ASSIGNIMMUTABLE" if t.startswith("ASSIGNIMMUTABLE") else t
        if not okjoin or [strip(t) for t in joined] != [strip(t) for t in optimizable]:
            bad("join(subblocks) != optimizable(block)", sub=sub, optimizable=optimizable)
            continue
        for i in range(len(sub) - 1):
            nm = sub[i][-1].split(" ")[0]
            _count("split_at_" + ("store" if nm in ("MSTORE", "SSTORE", "MSTORE8") else "splitinstr"))
        # (3) keys of the specification dictionary name reported sub-blocks
        valid_keys = {"%s_%d" % (b.block_name, i) for i in range(len(sub))}
        for k in contract:
            if k not in valid_keys:
                bad("specification key is not a reported sub-block", key=k, n_sub=len(sub))
        # (4) each specification starts from (a part of) the stack the previous sub-block leaves
        segs = [list(s) for s in sub]
        for i in range(len(segs) - 1):
            segs[i].pop()
            segs[i + 1].pop(0)
        # cut the original (name, value) pairs at the same positions, so that operands come from the input
        opt_pairs = [p for p in pairs if p[0] not in BEGIN and p[0] not in END]
        seg_pairs, split_pairs, pos = [], [], 0
        for i, seg in enumerate(segs):
            seg_pairs.append(opt_pairs[pos:pos + len(seg)])
            pos += len(seg)
            if i < len(segs) - 1:
                split_pairs.append(opt_pairs[pos])
                pos += 1
        h = b.source_stack
        need_total, _ = evm.stack_effect([token_pair(t) for t in optimizable])
        if need_total != h:
            bad("block.source_stack differs from the depth the block needs", source_stack=h, need=need_total)
        for i, seg in enumerate(segs):
            sp = seg_pairs[i]
            need_i, delta_i = evm.stack_effect(sp)
            key = "%s_%d" % (b.block_name, i)
            if key in contract:
                _count("specs")
                n_src = len(contract[key]["src_ws"])
                if n_src > h:
                    bad("src_ws deeper than the stack the previous sub-block leaves", key=key, src=n_src, height=h)
                if n_src > need_i:
                    bad("src_ws deeper than the sub-block's own need", key=key, src=n_src, need=need_i, seg=seg)
                exp_h = len(contract[key]["tgt_ws"]) - n_src
                if exp_h != delta_i:
                    bad("tgt_ws/src_ws height change differs from the segment's", key=key, spec_delta=exp_h, seg_delta=delta_i)
            h += delta_i
            if i < len(split_pairs):
                p, q = evm.ARITY[split_pairs[i][0]]
                h += q - p
        # (5) rebuild with nothing optimized is identity; replacing one sub-block changes only that segment
        orig_instrs = list(b.instructions)
        try:
            nb = rb.rebuild_optimized_asm_block(b, sub, {})
            _count("rebuild_calls")
            if drive.asm_pairs(nb) != pairs or list(nb.instructions) != orig_instrs:
                bad("rebuild(all None) != block", out=drive.asm_pairs(nb))
            nb = rb.rebuild_optimized_asm_block(b, sub, {"%s_%d" % (b.block_name, i): None for i in range(len(sub))})
            _count("rebuild_calls")
            if drive.asm_pairs(nb) != pairs:
                bad("rebuild(explicit None map) != block", out=drive.asm_pairs(nb))
        except Exception as e:
            bad("rebuild(all None) raises " + type(e).__name__, err=str(e)[:200])
        prefix = [p for p in pairs if p[0] in BEGIN]
        suffix = [p for p in pairs if p[0] in END]
        marker = [("PUSH", "deadbeef"), ("POP", None)]
        ks = list(range(len(sub)))
        if len(ks) > 4:
            ks = rnd.sample(ks, 4)
        for k in ks:
            if not segs[k]:
                continue
            R = [AsmBytecode(-1, -1, -1, "PUSH", "deadbeef"), AsmBytecode(-1, -1, -1, "POP", None)]
            expect = list(prefix)
            for i, seg in enumerate(segs):
                expect += marker if i == k else seg_pairs[i]
                if i < len(split_pairs):
                    expect.append(split_pairs[i])
            expect += suffix
            try:
                nb = rb.rebuild_optimized_asm_block(b, sub, {"%s_%d" % (b.block_name, k): R})
                _count("rebuild_single_replacements")
                got = drive.asm_pairs(nb)
                norm = lambda ps: [("PUSH", "0") if p == ("PUSH0", None) else p for p in ps]
                if norm(got) != norm(expect):
                    bad("rebuild({k:R}) changes something else than segment k", k=k, n_sub=len(sub), got=got, expect=expect)
            except Exception as e:
                bad("rebuild({k:R}) raises " + type(e).__name__, k=k, err=str(e)[:200])
    drive.clean_scratch()
    res["viols"] = viols
    res["counts"] = dict(COUNTS)
    if case.get("want_sample") and blocks:
        res["sample"] = {"block": evm.to_plain_string(block)[:300], "opts": case["opts"]}
    return res


def run():
    from vlib import findings
    from monitors import common
    r = findings.Run("C14")
    quick = common.tier() == "quick"
    n = 3000 if quick else 30000
    opts = [["-greedy"], ["-greedy", "-storage"], ["-greedy", "-partition"], ["-greedy", "-partition", "-push0"],
            ["-greedy", "-storage", "-no-simplification"]]
    cases = common.gen_cases(n, common.seed(), opts, kinds=["split", "long", "long", "mem", "splitlong"])
    col = common.Collector(r)
    st = common.run_pool("monitors.c14:handle", cases, col, cpu_budget=30.0)
    c = col.counts
    for need in ("blocks", "blocks_split", "rebuild_calls", "rebuild_single_replacements", "specs"):
        if c.get(need, 0) == 0:
            r.inconclusive.append("!never reached: " + need)
    r.coverage.update({"blocks": c.get("blocks", 0), "blocks_with_more_than_one_subblock": c.get("blocks_split", 0),
                       "subblocks": c.get("subblocks", 0), "splits_at_split_instructions": c.get("split_at_splitinstr", 0),
                       "splits_at_stores": c.get("split_at_store", 0), "specifications_checked": c.get("specs", 0),
                       "rebuild_identity_calls": c.get("rebuild_calls", 0),
                       "single_segment_replacements": c.get("rebuild_single_replacements", 0),
                       "front_end_exceptions_contained": c.get("front_end_exception", 0),
                       "blocks_per_policy": dict(col.by_group), "blocks_per_generator": dict(col.by_kind),
                       "budget_exceeded_cases": {k: v for k, v in col.stat.items() if k.startswith("budget_")},
                       "pool": st})
    r.assumptions = ["our own stack-effect table (vlib/evm.ARITY) and our own rendering of the optimizable sequence",
                     "src_ws may be shorter than the available stack (the front-end trims untouched bottom words): "
                     "the monitor requires len(src_ws) <= height left by the previous sub-block and <= the segment's need"]
    return r.finish(evaluations=col.stat["ok"], distinct_nontrivial=c.get("blocks_split", 0),
                    rule="generated blocks (0-6 split instructions, stores, 15-60 instructions around the partition "
                         "threshold) x {default,-storage,-partition}; non-trivial = block that the front-end split into "
                         "more than one sub-block")
