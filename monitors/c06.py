"""C06 — every model of the Max-SMT encoding decodes to a realizing sequence; SMT-LIB well formed.
C07 shares this machinery (monitors/c07.py).

The real encoder (BlockOptimizer/FullEncoding) writes the real .smt2 text for specifications the
real front-end produced; vlib/standin.py enumerates the models of the hard constraints with z3
(all of them for small instances), renders each in the solver's output format and the tool's own
reader (_rebuild_block_from_solver / get_value) decodes it; vlib/sfs_eval.realizes judges the
decoded sequence.  A few models per instance also travel through optimize_block() with the
stand-in solver executable, so the process boundary is exercised."""
import copy
import itertools
import os
import random

from vlib import evm, gen, drive, sfs_eval, smt, standin
from monitors import c01, c03

COUNTS = {}
VOCAB = [("PUSH", "0"), ("PUSH", "1"), ("PUSH", "5"), ("DUP1", None), ("DUP2", None), ("SWAP1", None), ("POP", None),
         ("ADD", None), ("SUB", None), ("ISZERO", None), ("MLOAD", None), ("MSTORE", None), ("SLOAD", None),
         ("SSTORE", None), ("CALLER", None)]


def _count(k, n=1):
    COUNTS[k] = COUNTS.get(k, 0) + n


def small_blocks(max_len):
    for n in range(1, max_len + 1):
        for t in itertools.product(VOCAB, repeat=n):
            yield list(t)


DEP_VOCAB = [("SLOAD", None), ("MLOAD", None), ("SSTORE", None), ("MSTORE", None), ("ISZERO", None), ("NOT", None),
             ("DUP1", None), ("DUP2", None), ("SWAP1", None), ("PUSH", "0"), ("PUSH", "1"), ("ADD", None), ("POP", None),
             ("KECCAK256", None), ("MSTORE8", None)]


def dep_blocks(rnd, n):
    """short blocks (3-5 items) with at least one load and one store: the instances where dependency
    constraints, position bounds and pruning interact"""
    out, seen = [], set()
    guard = 0

    def templated():
        # statements: a load whose result stays on the stack, a store independent of it (same or other location),
        # in either order, optionally a unary operation on the loaded value
        mem = rnd.random() < 0.6
        ld, st = ("MLOAD", rnd.choice(["MSTORE", "MSTORE", "MSTORE8"])) if mem else ("SLOAD", "SSTORE")
        if rnd.random() < 0.15:
            ld, st = rnd.choice([("MLOAD", "SSTORE"), ("SLOAD", "MSTORE")])
        addr = lambda: rnd.choice([[("PUSH", "0")], [("PUSH", "1")], [("DUP1", None)], [("DUP2", None)]])
        val = lambda: rnd.choice([[("PUSH", "1")], [("PUSH", "0")], [("DUP1", None)], [("DUP2", None)]])
        load = addr() + [(ld, None)] + ([(rnd.choice(["ISZERO", "NOT"]), None)] if rnd.random() < 0.3 else [])
        store = val() + addr() + [(st, None)]
        r = rnd.random()
        if r < 0.45:
            return load + store
        if r < 0.75:
            return store + load
        if r < 0.9:
            return load + [("SWAP1", None)] + store
        return load + store + addr() + [(ld, None)]
    while len(out) < n and guard < 200 * n:
        guard += 1
        if rnd.random() < 0.7:
            b = templated()
        else:
            k = rnd.randrange(3, 6)
            b = [rnd.choice(DEP_VOCAB) for _ in range(k)]
        names = [x[0] for x in b]
        if not any(x in names for x in ("SLOAD", "MLOAD", "KECCAK256")) or not any(x in names for x in ("SSTORE", "MSTORE", "MSTORE8")):
            continue
        t = tuple(b)
        if t in seen:
            continue
        try:
            need, _ = evm.stack_effect(b)
        except KeyError:
            continue
        if need > 4 or len(b) > 7:
            continue
        seen.add(t)
        out.append(b)
    return out


def flow_blocks(rnd, n):
    """load -> operation(s) -> store blocks: the loaded value reaches the store through the stack *and* the pair is
    ordered by a memory/storage dependency, the load's own key coming from the initial stack.  A fixed core of
    shapes is always present; the rest is sampled from the enumerated family."""
    fam = []
    for ld, sts in (("MLOAD", ["MSTORE", "MSTORE8", "SSTORE"]), ("SLOAD", ["SSTORE", "MSTORE"])):
        for st in sts:
            for pre in ([], [("DUP1", None)], [("DUP2", None)]):
                for mid in ([("ISZERO", None)], [("NOT", None)], [("ISZERO", None), ("ISZERO", None)],
                            [("PUSH", "1"), ("ADD", None)], [("DUP1", None), ("ADD", None)], []):
                    for post in ([], [("SWAP1", None)], [("SWAP1", None), ("SWAP1", None)], [("DUP2", None)],
                                 [("PUSH", "0")], [("PUSH", "1"), ("SWAP1", None)]):
                        fam.append(pre + [(ld, None)] + mid + post + [(st, None)])
    core = [[("SLOAD", None), ("ISZERO", None), ("SSTORE", None)],
            [("SLOAD", None), ("ISZERO", None), ("SWAP1", None), ("SWAP1", None), ("SSTORE", None)],
            [("MLOAD", None), ("ISZERO", None), ("MSTORE", None)],
            [("MLOAD", None), ("NOT", None), ("SWAP1", None), ("SWAP1", None), ("MSTORE", None)],
            [("MLOAD", None), ("ISZERO", None), ("SWAP1", None), ("MSTORE", None)],
            [("SLOAD", None), ("NOT", None), ("SWAP1", None), ("SSTORE", None)],
            [("DUP1", None), ("SLOAD", None), ("ISZERO", None), ("SWAP1", None), ("SSTORE", None)],
            [("DUP1", None), ("MLOAD", None), ("PUSH", "1"), ("ADD", None), ("SWAP1", None), ("MSTORE", None)]]
    out, seen = [], set()
    for b in core + rnd.sample(fam, min(len(fam), max(0, n - len(core)))):
        t = tuple(b)
        if t in seen:
            continue
        try:
            need, _ = evm.stack_effect(b)
        except KeyError:
            continue
        if need > 4:
            continue
        seen.add(t)
        out.append(b)
    return out[:n]


def ternary_blocks(rnd, n):
    """blocks around a three-operand instruction (ADDMOD/MULMOD) with repeated operands, so that few stack cells are
    needed and the instruction can execute on a full stack: the transitions of arity > 2 (cells freed, operands in
    order) are otherwise hardly exercised by the small-vocabulary family"""
    T = lambda txt: evm.from_plain_string(txt)
    fam = []
    for op in ("ADDMOD", "MULMOD"):
        for pre in ("DUP1 DUP1 DUP1", "DUP1 DUP2 DUP1", "DUP2 DUP2 DUP2", "DUP3 DUP3 DUP3", "PUSH 1 DUP2 DUP3", "DUP1 PUSH 2 DUP3",
                    "DUP2 DUP1 DUP1", ""):
            for post in ("", "DUP2 SWAP1", "DUP1", "SWAP1 POP", "SWAP1", "DUP2", "PUSH 0 MSTORE"):
                fam.append(T(" ".join(x for x in (pre, op, post) if x)))
    core = [T("DUP1 DUP1 DUP1 ADDMOD DUP2 SWAP1"), T("DUP1 DUP1 DUP1 MULMOD DUP2 SWAP1"), T("DUP1 DUP1 DUP1 ADDMOD"),
            T("ADDMOD DUP1"), T("DUP3 DUP3 DUP3 MULMOD SWAP1 POP")]
    out, seen = [], set()
    for b in core + rnd.sample(fam, min(len(fam), max(0, n - len(core)))):
        t = tuple(b)
        if t not in seen:
            seen.add(t)
            out.append(b)
    return out[:n]


def repeat_blocks(rnd, n):
    """a value computed twice by the block although once would do (an expensive read, a hash, an environment opcode,
    a wide constant): the declared length leaves room for models that duplicate the value and for models that
    compute it again, so soft weights of instructions of very different prices are compared within one instance"""
    T = lambda txt: evm.from_plain_string(txt)
    fam = []
    for x in ("SLOAD", "MLOAD", "BALANCE", "CALLDATALOAD", "EXTCODESIZE", "ISZERO", "NOT"):
        for tail in ("", "ADD", "SWAP1", "LT", "PUSH 0 MSTORE", "POP"):
            fam.append(T("DUP1 %s SWAP1 %s %s" % (x, x, tail)))
            fam.append(T("DUP1 %s DUP2 %s %s" % (x, x, tail)))
    for x in ("ADDRESS", "CALLVALUE", "CALLER", "TIMESTAMP", "PUSH ffffffffffffffffffffffffffffffff", "PUSH 1", "PUSH 0", "PUSH 100"):
        for tail in ("", "ADD", "DUP3 ADD", "SWAP2", "PUSH 0 SSTORE"):
            fam.append(T("%s %s %s" % (x, x, tail)))
    fam.append(T("PUSH 20 DUP2 KECCAK256 PUSH 20 DUP3 KECCAK256 ADD"))
    core = [T("DUP1 SLOAD SWAP1 SLOAD ADD"), T("DUP1 MLOAD SWAP1 MLOAD ADD"), T("ADDRESS ADDRESS ADD"),
            T("PUSH ffffffffffffffffffffffffffffffff PUSH ffffffffffffffffffffffffffffffff ADD")]
    out, seen = [], set()
    for b in core + rnd.sample(fam, min(len(fam), max(0, n - len(core)))):
        t = tuple(b)
        if t not in seen:
            seen.add(t)
            out.append(b)
    return out[:n]


def store_pop_blocks(rnd, n):
    """a store (each kind) with stack elements to discard around it: programs where a POP directly follows or precedes
    the store, or follows a DUP/SWAP -- the instances on which the pruning constraints about POP decide"""
    T = lambda txt: evm.from_plain_string(txt)
    fam = []
    for st in ("MSTORE", "MSTORE8", "SSTORE"):
        for shape in ("%s POP", "SWAP2 POP SWAP1 %s", "%s POP POP", "POP %s", "SWAP2 SWAP1 %s POP", "DUP3 DUP3 %s POP",
                      "PUSH 1 PUSH 0 %s POP", "DUP1 PUSH 0 %s POP POP", "SWAP1 %s POP", "%s SWAP1 POP"):
            fam.append(T(shape % st))
    core = [T("SWAP2 POP SWAP1 MSTORE8"), T("MSTORE8 POP"), T("SWAP2 POP SWAP1 MSTORE"), T("SWAP2 POP SWAP1 SSTORE")]
    out, seen = [], set()
    for b in core + rnd.sample(fam, min(len(fam), max(0, n - len(core)))):
        t = tuple(b)
        if t not in seen:
            seen.add(t)
            out.append(b)
    return out[:n]


def encode(key, S, params):
    """run the real encoder; returns (BlockOptimizer, smt2 text)"""
    from smt_encoding.block_optimizer import BlockOptimizer
    bo = BlockOptimizer(key, copy.deepcopy(S), params, 10)
    bo.generate_intermediate_files()
    with open(bo._encoding_file) as f:
        text = f.read()
    return bo, text


def decode(bo, en, m, style):
    bo._solver._model = en.render(m, style)
    return bo._rebuild_block_from_solver()


def check_instance(key, S, seg, params, opts, viols, cap, want_cost=False):
    """C06 checks on one specification; returns dict with decoded models (for C07)"""
    _count("instances")
    style = "z3" if params.smt_solver == "z3" else "oms"
    info = {"models": [], "exhaustive": False, "script": None, "bo": None}
    try:
        bo, text = encode(key, S, params)
    except Exception as e:
        _count("encoder_exception")
        viols.append({"fingerprint": "encoder raises %s" % type(e).__name__,
                      "witness": {"segment": evm.to_plain_string(seg), "opts": opts, "err": str(e)[:200]}})
        return info
    problems, meta = smt.check_script(text)
    _count("symbols_checked", meta.get("declared", 0))
    _count("assertions_checked", meta.get("asserts", 0) + meta.get("soft", 0))
    if problems:
        import re
        neg = [q for q in problems if re.search(r"undeclared symbol [a-z]+_-\d", q)]
        und = [q for q in problems if q.startswith("undeclared")]
        cells = [re.fullmatch(r"undeclared symbol [xu]_(-?\d+)_\d+", q) for q in und]
        outside = bool(und) and all(m_ and not (0 <= int(m_.group(1)) < S["max_sk_sz"]) for m_ in cells)
        if neg and (len(neg) * 2 >= len(und) or outside):
            # every undeclared symbol is a stack cell outside [0, max_sk_sz): the transitions refer to cells the
            # degenerate stack bound does not have
            cls = "undeclared stack variable with a negative position (stack bound %d)" % S["max_sk_sz"]
        else:
            cls = re.sub(r"\b([a-z]+)_-?\d+(_-?\d+)?\b", r"\1_<i>", problems[0])
        viols.append({"fingerprint": "SMT-LIB text not well formed: " + cls,
                      "witness": {"segment": evm.to_plain_string(seg), "opts": opts, "problems": problems[:5]}})
        return info
    try:
        script = standin.Script(text)
        en = standin.Enumerator(script, timeout_ms=5000)
    except Exception as e:
        viols.append({"fingerprint": "z3 rejects the emitted SMT-LIB text (%s)" % type(e).__name__,
                      "witness": {"segment": evm.to_plain_string(seg), "opts": opts, "err": str(e)[:300]}})
        return info
    info["script"], info["bo"], info["en"] = script, bo, en
    n = 0
    timed_out = []
    for proj, avals, m in en.models(cap=cap, on_timeout=lambda: timed_out.append(1)):
        n += 1
        _count("models")
        try:
            ids = decode(bo, en, m, style)
        except Exception as e:
            viols.append({"fingerprint": "the tool's model reader fails (%s)" % type(e).__name__,
                          "witness": {"segment": evm.to_plain_string(seg), "opts": opts, "err": str(e)[:200]}})
            break
        ids_eval = list(ids)
        if params.push_basic and avals:
            # the tool's reader does not return the pushed constant a_j; it is read from the model here
            for j, iid in enumerate(ids_eval):
                if iid == "PUSH" and j < len(avals):
                    ids_eval[j] = "PUSH %x" % avals[j].as_long()
        why = sfs_eval.realizes(S, ids_eval, check_len=True, check_height=True)
        if why is not None:
            cls = why.split(" ")[0]
            if cls in ("wrong-operands", "store", "dependency"):
                tok = why.split(" ")[1]
                byid = sfs_eval.by_id(S)
                if cls == "dependency":
                    a, b = tok.split("->")
                    cls = "dependency %s->%s" % (byid[a]["disasm"], byid[b]["disasm"])
                else:
                    cls = "%s %s" % (cls, byid[tok]["disasm"] if tok in byid else tok)
            viols.append({"fingerprint": "a model of the hard constraints decodes to a non-realizing sequence: " + cls,
                          "witness": {"segment": evm.to_plain_string(seg), "opts": opts, "ids": ids, "reason": why, "spec": S}})
            break
        info["models"].append((ids_eval, m))
    if timed_out:
        _count("instances_solver_timeout")
    elif n < cap:
        info["exhaustive"] = True
        _count("instances_exhaustively_enumerated")
    else:
        _count("instances_sampled_cap_reached")
    if n == 0 and not timed_out:
        _count("instances_unsat")
    info["n_models"] = n
    return info


def through_process(key, S, params, opts, viols, modes):
    """optimize_block() spawning the stand-in solver executable (process boundary)"""
    from smt_encoding.block_optimizer import BlockOptimizer
    from smt_encoding.solver.solver import OptimizeOutcome
    for mode in modes:
        os.environ["GASOL_VERIF_SOLVER_MODE"] = mode
        try:
            bo = BlockOptimizer(key, copy.deepcopy(S), params, 10)
            outcome, t, ids = bo.optimize_block()
        except Exception as e:
            viols.append({"fingerprint": "optimize_block raises with the stand-in solver (%s)" % type(e).__name__,
                          "witness": {"opts": opts, "mode": mode, "err": str(e)[:200]}})
            return
        _count("process_boundary_runs")
        if outcome in (OptimizeOutcome.unsat, OptimizeOutcome.no_model):
            _count("process_boundary_unsat")
            continue
        if params.push_basic:
            continue
        why = sfs_eval.realizes(S, ids, check_len=True, check_height=True)
        if why is not None:
            viols.append({"fingerprint": "optimize_block returns a non-realizing sequence (stand-in mode %s)" % mode.split(":")[0],
                          "witness": {"opts": opts, "ids": ids, "reason": why, "spec": S}})


def setup_standin():
    """rebind the solver executables to the stand-in (the hook the property names)"""
    path = os.path.join(os.path.dirname(os.path.dirname(os.path.abspath(__file__))), "vlib", "standin_solver")
    import smt_encoding.solver.z3_executable as z3e
    import smt_encoding.solver.oms_executable as omse
    z3e.z3_exec = path
    omse.oms_exec = path
    drive.R["paths"].z3_exec = path
    drive.R["paths"].oms_exec = path


def specs_of(case):
    if "spec" in case:
        return [("handbuilt_0", case["spec"], [])], None
    block = [tuple(x) for x in case["block"]]
    return c03.front_end(block, case["opts"])


def handle(case):
    COUNTS.clear()
    drive.setup()
    setup_standin()
    opts = case["opts"]
    params = c01.params_for(opts)
    viols = []
    specs, exc = specs_of(case)
    sample = None
    for key, S, seg in specs:
        b0 = S["init_progr_len"]
        if b0 <= 0 or b0 > case.get("max_b0", 6) or S["max_sk_sz"] > 8:
            _count("skipped_out_of_family")
            continue
        info = check_instance(key, S, seg, params, opts, viols, case.get("cap", 3000))
        if info.get("n_models") and case.get("process", False):
            through_process(key, S, params, opts, viols, ["optimal", "model:1", "model:7"])
        if sample is None and info.get("models"):
            sample = {"segment": evm.to_plain_string(seg), "opts": opts, "models": info.get("n_models"),
                      "decoded": info["models"][0][0]}
    drive.clean_scratch()
    res = {"viols": viols, "counts": dict(COUNTS)}
    if case.get("want_sample") and sample:
        res["sample"] = sample
    return res


ENC_OPTS = [
    ["-solver", "z3"],
    ["-solver", "oms"],
    ["-solver", "z3", "-term-encoding", "int"],
    ["-solver", "z3", "-term-encoding", "stack_vars"],
    ["-solver", "z3", "-term-encoding", "uninterpreted_int"],
    ["-solver", "z3", "-empty"],
    ["-solver", "oms", "-empty", "-term-encoding", "int"],
    ["-solver", "z3", "-pop-uninterpreted"],
    ["-solver", "z3", "-memory-encoding", "l_vars"],
    ["-solver", "z3", "-memory-encoding", "l_vars", "-term-encoding", "stack_vars", "-order-conflicts"],
    ["-solver", "z3", "-order-bounds"],
    ["-solver", "z3", "-order-conflicts"],
    ["-solver", "z3", "-at-most", "-pushed-once"],
    ["-solver", "z3", "-no-output-before-pop"],
    ["-solver", "oms", "-order-bounds", "-order-conflicts", "-at-most", "-pushed-once", "-no-output-before-pop"],
    ["-solver", "z3", "-push-basic"],
    ["-solver", "z3", "-push-basic", "-term-encoding", "int", "-pop-uninterpreted"],
    ["-solver", "z3", "-size", "-direct-inequalities"],
    ["-solver", "z3", "-length", "-pop-uninterpreted", "-empty"],
]


def build_cases(quick, seed):
    rnd = random.Random(seed + 6)
    cases = []
    allb = list(small_blocks(3))
    rnd.shuffle(allb)
    n_small = 40 if quick else 400
    n_rand = 14 if quick else 150
    for oi, o in enumerate(ENC_OPTS):
        g = " ".join(o)
        for bi, b in enumerate(allb[oi * 7 % 50:][:n_small]):
            cases.append({"block": b, "opts": o, "_group": g, "kind": "small-exhaustive-family", "process": bi < 3, "_cpu": 60})
        for b in dep_blocks(random.Random(seed + 1000 + oi), 40 if quick else 400):
            cases.append({"block": b, "opts": o, "_group": g, "kind": "load-store-blocks", "_cpu": 60})
        for b in flow_blocks(random.Random(seed + 2000 + oi), 12 if quick else 120):
            cases.append({"block": b, "opts": o, "_group": g, "kind": "load-flow-store-blocks", "_cpu": 60})
        for b in ternary_blocks(random.Random(seed + 3000 + oi), 8 if quick else 60):
            cases.append({"block": b, "opts": o, "_group": g, "kind": "ternary-blocks", "_cpu": 60})
        for b in store_pop_blocks(random.Random(seed + 4000 + oi), 6 if quick else 30):
            cases.append({"block": b, "opts": o, "_group": g, "kind": "store-pop-blocks", "_cpu": 60})
        for i in range(n_rand):
            b, k = gen.gen_block(rnd, "short")
            cases.append({"block": b[:6], "opts": o, "_group": g, "kind": "short-random", "_cpu": 60})
        for i in range(n_rand // 2):
            S = gen.gen_sfs(rnd, n_instr=rnd.randrange(1, 4), n_src=rnd.randrange(0, 3))
            S["init_progr_len"] = min(5, max(1, len(S["user_instrs"]) + len(S["tgt_ws"]) + 1))
            S["max_sk_sz"] = min(8, S["max_sk_sz"])
            if "-push-basic" in o or "-pop-uninterpreted" in o:
                continue           # hand-built specs follow the default front-end mode
            cases.append({"spec": S, "opts": o, "_group": g, "kind": "handbuilt", "_cpu": 60})
    for i, c in enumerate(cases):
        c["idx"] = i
    seen = set()
    for c in cases:
        if c["_group"] not in seen:
            seen.add(c["_group"])
            c["want_sample"] = True
    cases.sort(key=lambda c: c["_group"])
    return cases


def run():
    from vlib import findings
    from monitors import common
    r = findings.Run("C06")
    quick = common.tier() == "quick"
    cases = build_cases(quick, common.seed())
    col = common.Collector(r)
    st = common.run_pool("monitors.c06:handle", cases, col, cpu_budget=90.0)
    c = col.counts
    for need in ("instances", "models", "instances_exhaustively_enumerated", "symbols_checked", "process_boundary_runs"):
        if c.get(need, 0) == 0:
            r.inconclusive.append("!never reached: " + need)
    r.coverage.update({"instances": c.get("instances", 0), "models_enumerated_and_decoded": c.get("models", 0),
                       "instances_exhaustively_enumerated": c.get("instances_exhaustively_enumerated", 0),
                       "instances_sampled_cap_reached": c.get("instances_sampled_cap_reached", 0),
                       "instances_unsat": c.get("instances_unsat", 0),
                       "instances_solver_timeout": c.get("instances_solver_timeout", 0),
                       "symbols_checked": c.get("symbols_checked", 0), "assertions_checked": c.get("assertions_checked", 0),
                       "process_boundary_runs": c.get("process_boundary_runs", 0),
                       "skipped_out_of_family": c.get("skipped_out_of_family", 0), "encoder_option_sets": len(ENC_OPTS),
                       "instances_per_option_set": dict(col.by_group), "cases_per_generator": dict(col.by_kind),
                       "exhaustive": False, "budget_exceeded_cases": {k: v for k, v in col.stat.items() if k.startswith("budget_")},
                       "pool": st})
    r.assumptions = ["z3 (python API) is the model enumerator: its soundness/completeness on QF_UF/QF_IDL/QF_UFIDL is trusted",
                     "models are compared on the decoded instruction sequence (projection on t_j, and a_j for push-basic)",
                     "instance family: specifications with init_progr_len <= 5 and max_sk_sz <= 8 from blocks over a 15-item "
                     "vocabulary, short random blocks and hand-built specifications; complete enumeration per instance "
                     "unless the 3000-model cap or the 5 s solver limit is hit (counted)"]
    return r.finish(evaluations=c.get("models", 0), distinct_nontrivial=c.get("instances_exhaustively_enumerated", 0),
                    rule="for each instance all models of the emitted hard constraints (projected on the instruction "
                         "sequence) are enumerated with z3, decoded by the tool's reader and checked by realizes(); "
                         "non-trivial = instance whose model set was enumerated completely")
