"""C01 — optimized blocks are observationally equivalent to the original.

Worker side: run the real per-block pipeline (optimize -> compare -> keep-or-revert) and
execute input and emitted block on sampled concrete states with the reference interpreter.
"""
import random
import re

from vlib import evm, gen, drive, minimize

_params_cache = {}


_proc_key = None


def params_for(opts):
    global _proc_key
    key = tuple(opts)
    if _proc_key is None:
        _proc_key = key
    elif _proc_key != key:
        # the real tool runs one option set per process; module globals (e.g. split_sto) are sticky
        raise RuntimeError("harness error: one option set per worker process")
    p = _params_cache.get(key)
    if p is None:
        p = drive.make_params(list(opts))
        _params_cache[key] = p
    else:
        drive.apply_globals(p)
    return p


def norm_rule(r):
    r = str(r)
    if r.startswith("(("):
        m = re.search(r"'(mload|sload|mstore|sstore|mstore8|keccak)", r)
        kind = m.group(1) if m else "mem"
        return "memfwd:" + kind
    return re.sub(r"\s+", "", r)


def run_pipeline(block, opts):
    """returns (orig_pairs, emitted_pairs, info)"""
    drive.setup()
    params = params_for(opts)
    blocks = drive.build_blocks(gen.to_items(block))
    orig, emitted = [], []
    info = {"exc": [], "changed": False, "rules": [], "eq_false": 0, "nblocks": len(blocks)}
    with drive.SpecRecorder() as rec:
        for b in blocks:
            r = drive.run_block(b, params)
            orig.extend(drive.asm_pairs(b))
            emitted.extend(drive.asm_pairs(r["emitted"]))
            if r["exc_opt"]:
                info["exc"].append("opt:" + r["exc_opt"])
            if r["exc_cmp"]:
                info["exc"].append("cmp:" + r["exc_cmp"])
            if r["eq"] is False:
                info["eq_false"] += 1
            info["changed"] = info["changed"] or r["changed"]
        for name, sfs, _sub in rec.records:
            if name.startswith("alreadyOptimized_"):
                continue
            for k, s in sfs.items():
                for t in s.get("rules", []):
                    info["rules"].append(norm_rule(t))
    drive.clean_scratch()
    return orig, emitted, info


def check_pair(orig, emitted, rnd, k):
    """None or (reason, state_json)"""
    need_o, delta_o = evm.stack_effect(orig)
    try:
        need_e, delta_e = evm.stack_effect(emitted)
    except KeyError as e:
        return ("bad-opcode %s" % e, None)
    if need_e > need_o:
        return ("deeper-input %d>%d" % (need_e, need_o), None)
    term_o = orig and orig[-1][0] in evm.TERMINAL and orig[-1][0] not in ("JUMP", "JUMPI")
    if delta_e != delta_o and not term_o:
        return ("height-delta %d/%d" % (delta_e, delta_o), None)
    for st in gen.sample_states(rnd, orig, k, need_o):
        why = evm.distinguishes(orig, emitted, st)
        if why:
            return (why, st.to_json())
    return None


def use_standin(mode):
    """route the tool's solver calls to the stand-in solver executable (mode: optimal | model:K)"""
    import os
    from monitors import c06
    drive.setup()
    c06.setup_standin()
    os.environ["GASOL_VERIF_SOLVER_MODE"] = mode


def handle(case):
    block = [tuple(x) for x in case["block"]]
    opts = case["opts"]
    if case.get("solver_mode"):
        use_standin(case["solver_mode"])
    rnd = random.Random(case.get("sseed", 0))
    orig, emitted, info = run_pipeline(block, opts)
    res = {"changed": info["changed"], "rules": sorted(set(info["rules"])), "exc": info["exc"][:3],
           "eq_false": info["eq_false"], "n": len(orig)}
    if not info["changed"]:
        return res
    res["states"] = case.get("k", 24)
    bad = check_pair(orig, emitted, rnd, case.get("k", 24))
    if bad is None:
        res["ops"] = sorted(set(n for n, _ in orig))
        res["trace"] = any(n in evm.ARITY and (n in gen.SPLITS or n in evm.TERMINAL) for n, _ in orig)
        if case.get("want_sample"):
            res["sample"] = {"in": evm.to_plain_string(orig), "out": evm.to_plain_string(emitted), "opts": opts}
        return res

    # minimize the witness: smallest block on which the pipeline still emits a distinguishable block
    def still_bad(b):
        try:
            o, e, i = run_pipeline(b, opts)
        except Exception:
            return None
        if not i["changed"]:
            return None
        r = check_pair(o, e, random.Random(case.get("sseed", 0)), case.get("k", 24))
        if r is None:
            return None
        return (r, o, e, i)

    mb, mres = minimize.minimize_block(block, still_bad, budget=case.get("min_budget", 120))
    if mres is None:
        mres = (bad, orig, emitted, info)
        mb = block
    (why, st), o, e, i = mres
    res["viol"] = {"reason": why, "state": st, "block": [list(x) for x in mb], "orig_block": case["block"],
                   "in": evm.to_plain_string(o), "out": evm.to_plain_string(e), "opts": opts,
                   "rules": sorted(set(i["rules"]))}
    res["viols"] = [{"fingerprint": fingerprint(mb, why, i["rules"], opts), "witness": res.pop("viol")}]
    return res


CORE_SKIP = ("PUSH", "DUP", "SWAP", "POP")


def fingerprint(block, why, rules, opts):
    ops = sorted(set(n for n, _ in block if not n.startswith(CORE_SKIP) or n in gen.PSEUDO))
    why_class = why.split(" ")[0]
    return "rules=%s ops=%s obs=%s" % (",".join(sorted(set(rules))) or "-", ",".join(ops) or "-", why_class)


# ------------------------------------------------------------------ parent side
def run():
    from vlib import findings
    from monitors import common
    r = findings.Run("C01")
    quick = common.tier() == "quick"
    n = 5000 if quick else 50000
    cases = common.gen_cases(n, common.seed(), common.GREEDY_OPTS, k_states=24 if quick else 96)
    # the targeted families (boundary distances between two addresses, interchangeable items, duplicated terms, tight
    # store/load pairs, wrap-around constants) get a fixed share besides their weight in the generic mix
    extra = common.gen_cases(n // 5, common.seed() + 1010, common.GREEDY_OPTS, k_states=24 if quick else 96,
                             kinds=["overlap", "overlap", "overlap", "symm", "dupterms", "tiny", "wrap", "identity"])
    for c_ in extra:
        c_["idx"] += len(cases)
        c_.pop("want_sample", None)
    cases = cases + extra
    # solver back-ends with the stand-in solver: the Max-SMT optimum and adversarial (non-optimal) models
    import random as _random
    from monitors import c06
    rs = _random.Random(common.seed() + 101)
    solver_sets = [(["-solver", "z3"], "optimal"), (["-solver", "z3"], "model:3"), (["-solver", "oms", "-ub-greedy"], "optimal"),
                   (["-solver", "z3", "-ub-greedy"], "model:5"), (["-solver", "z3", "-size"], "optimal"),
                   (["-solver", "z3", "-ub-greedy", "-length", "-push0"], "model:1")]
    n_solver = 40 if quick else 400
    for (o, mode) in solver_sets:
        blocks = c06.dep_blocks(rs, n_solver // 2) + [gen.gen_block(rs, "short")[0][:7] for _ in range(n_solver // 2)]
        for b in blocks:
            cases.append({"block": b, "opts": o, "sseed": rs.getrandbits(30), "kind": "solver:" + mode.split(":")[0],
                          "_group": " ".join(o) + "#" + mode, "k": 24, "idx": len(cases), "solver_mode": mode, "_cpu": 120})
    cases.sort(key=lambda c: c["_group"])

    class Col(common.Collector):
        changed = set()
        ops = set()
        with_trace = 0
        states = 0

        def custom(self, idx, case, res):
            if res.get("changed"):
                self.changed.add(evm.to_plain_string([tuple(x) for x in case["block"]]))
                self.states += res.get("states", 0)
                self.ops.update(res.get("ops", []))
                self.with_trace += bool(res.get("trace"))
            if res.get("exc"):
                self.stat["pipeline_exception_contained"] += 1
            if res.get("eq_false"):
                self.stat["own_checker_rejected_candidate"] += res["eq_false"]
    col = Col(r)
    st = common.run_pool("monitors.c01:handle", cases, col, cpu_budget=20.0)
    if not col.changed:
        r.inconclusive.append("!no block was changed by the optimizer")
    r.coverage.update({
        "blocks_changed_by_optimizer": len(col.changed), "states_executed_on_changed_pairs": col.states,
        "pairs_with_trace_events": col.with_trace, "distinct_opcodes_in_changed_blocks": sorted(col.ops),
        "blocks_per_option_set": dict(col.by_group), "blocks_per_generator": dict(col.by_kind),
        "spec_rule_tags_seen": {k[5:]: v for k, v in sorted(col.fired.items()) if k.startswith("spec:")},
        "pipeline_exceptions_contained": col.stat.get("pipeline_exception_contained", 0),
        "candidates_rejected_by_tool_checker": col.stat.get("own_checker_rejected_candidate", 0),
        "budget_exceeded_cases": {k: v for k, v in col.stat.items() if k.startswith("budget_")},
        "budget_exceeded_examples": col.fails[:3], "pool": st,
        "back_ends": "greedy; Max-SMT and -ub-greedy through the stand-in solver (modes optimal and model:K)",
        "solver_backed_cases": sum(v for k, v in col.by_kind.items() if k.startswith("solver:"))})
    r.assumptions = ["vlib/evm.py reference interpreter (operators cross-checked against z3 bit-vectors)",
                     "GAS/PC/MSIZE values are not compared; states on which the original halts exceptionally are skipped",
                     "equivalence decided on sampled states (boundary, aliasing, harvested-operand classes)"]
    return r.finish(evaluations=col.stat["ok"], distinct_nontrivial=len(col.changed),
                    rule="generated blocks (rule-directed, grammar, memory-heavy, split/terminal, deep-stack) through the "
                         "real optimize->compare->keep-or-revert pipeline; non-trivial = distinct block whose emitted "
                         "code differs from the input (executed differentially on K states)")
