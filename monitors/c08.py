"""C08 — optimization never makes a block costlier in the chosen criterion.

Per block: input and emitted block of the real pipeline are measured by independent meters
(vlib/costs.py: bytes, length; metered execution for gas on sampled states).
Totals: the six numbers the CLI prints are reconciled with the sums recomputed from the blocks
re-read from the input and output files (monitors/cli_props.py drives the CLI runs).
"""
import random

from vlib import evm, gen, drive, costs
from monitors import c01

COUNTS = {}


def _count(k, n=1):
    COUNTS[k] = COUNTS.get(k, 0) + n


def criterion_of(opts):
    return "size" if "-size" in opts else "length" if "-length" in opts else "gas"


def _gas(block, st, adj, flat_exp=False, force_warm=None, static_storage=False):
    if force_warm is None and not static_storage:
        o = evm.observe(block, st, meter="flat_exp" if flat_exp else True)
    else:
        o = evm.observe(block, st, meter={"flat_exp": flat_exp, "force_warm": force_warm, "no_storage": static_storage})
    g = o.gas + adj
    if static_storage:
        # storage accesses priced statically (warm/cold and store price by the syntactic key term), all the rest metered
        g += costs.static_storage_gas(block)
    return g, o.halt, o.warm_log


def _structural_warm(block, states):
    """per state access of the block (execution order): warm on every state where the block runs to its end,
    i.e. warm because of how the keys are computed and not because two different values happen to coincide"""
    flags = None
    for st in states:
        o = evm.observe(block, st, meter=True)
        if o.halt in ("oog", "underflow", "badop"):
            continue
        if flags is None:
            flags = list(o.warm_log)
        elif len(flags) == len(o.warm_log):
            flags = [x and y for x, y in zip(flags, o.warm_log)]
    return flags


def compare_costs(orig, emitted, push0, rnd, k):
    """returns dict(bytes=(a,b), length=(a,b), gas_worse=(state,g1,g2)|None, gas_better=bool, gas_states=n, ...).
    Every state on which the emitted block costs more is classified: does the increase disappear when EXP is
    priced as the tool prices it (flat) and/or when warm/cold is decided by the alias structure of the block
    instead of the concrete values (the tool keys accessed slots by their symbolic term)?  gas_explained lists
    the explanations needed when *every* such state is explained; an unexplained state is preferred as witness."""
    out = {"bytes": (costs.block_bytes(orig, push0), costs.block_bytes(emitted, push0)),
           "length": (costs.block_length(orig), costs.block_length(emitted)),
           "gas_worse": None, "gas_better": False, "gas_states": 0, "gas_equal_all": True,
           "gas_worse_states": 0, "gas_explained": None}
    need, _ = evm.stack_effect(orig)
    adj_o, adj_e = costs.zero_push_adjust(orig, push0), costs.zero_push_adjust(emitted, push0)
    states = list(gen.sample_states(rnd, orig, k, need))
    worse = []
    for st in states:
        g1, h1, _ = _gas(orig, st, adj_o)
        if h1 in ("oog", "underflow", "badop"):
            continue
        g2, h2, _ = _gas(emitted, st, adj_e)
        if h2 in ("oog", "underflow", "badop"):
            continue
        out["gas_states"] += 1
        if g2 > g1:
            worse.append((st, g1, g2))
        if g2 < g1:
            out["gas_better"] = True
        if g1 != g2:
            out["gas_equal_all"] = False
    if worse:
        out["gas_worse_states"] = len(worse)
        generic = [evm.State([rnd.getrandbits(256) for _ in range(need)], rnd.getrandbits(32), False, False) for _ in range(3)]
        fw_o, fw_e = _structural_warm(orig, states + generic), _structural_warm(emitted, states + generic)
        explained, unexplained = set(), None
        for st, g1, g2 in worse:
            why = None
            for name, fe, fw, ss in (("exp", True, False, False), ("alias", False, True, False), ("exp+alias", True, True, False),
                                     ("storage-model", False, False, True), ("exp+storage-model", True, False, True)):
                if fw and (fw_o is None or fw_e is None):
                    continue
                a1, _, _ = _gas(orig, st, adj_o, flat_exp=fe, force_warm=fw_o if fw else None, static_storage=ss)
                a2, _, _ = _gas(emitted, st, adj_e, flat_exp=fe, force_warm=fw_e if fw else None, static_storage=ss)
                if a2 <= a1:
                    why = name
                    break
            if why is None:
                unexplained = unexplained or (st, g1, g2)
            else:
                explained.add(why)
        st, g1, g2 = unexplained or worse[0]
        out["gas_worse"] = (st.to_json(), g1, g2)
        if unexplained is None:
            out["gas_explained"] = sorted(explained)
        out["only_exp_pricing"] = unexplained is None and explained == {"exp"}
    if out["gas_states"] == 0:
        # no informative state (all halt out of gas): fall back to the static estimate
        s0, s1 = costs.static_gas(orig, push0), costs.static_gas(emitted, push0)
        out["static_fallback"] = True
        # without any informative state the dynamic part of EXP (50 gas per exponent byte) is unknown: when the two
        # blocks do not contain the same number of EXP instructions the static estimate cannot order them
        if sum(1 for n_, _ in orig if n_ == "EXP") != sum(1 for n_, _ in emitted if n_ == "EXP"):
            out["static_undecided"] = True
        out["gas_worse"] = (None, s0, s1) if s1 > s0 else None
        if s1 > s0:
            out["only_exp_pricing"] = costs.static_gas(emitted, push0, flat_exp=True) <= costs.static_gas(orig, push0, flat_exp=True)
        out["gas_better"] = s1 < s0
        out["gas_equal_all"] = s1 == s0
    return out


def judge(crit, c):
    """None or a short violation description"""
    b0, b1 = c["bytes"]
    l0, l1 = c["length"]
    gas_worse = c["gas_worse"] is not None
    gas_better = c["gas_better"] and not gas_worse
    gas_equal = c["gas_equal_all"]
    if crit == "size":
        if b1 > b0:
            return "bytes increased"
        if b1 == b0:
            if gas_worse or l1 > l0:
                return "equal bytes but another criterion got worse"
            if not (gas_better or l1 < l0):
                return "changed without improvement"
    elif crit == "length":
        if l1 > l0:
            return "length increased"
        if l1 == l0:
            if gas_worse or b1 > b0:
                return "equal length but another criterion got worse"
            if not (gas_better or b1 < b0):
                return "changed without improvement"
    else:
        if gas_worse:
            return "gas increased on some state"
        if gas_equal:
            if b1 > b0 or l1 > l0:
                return "equal gas but another criterion got worse"
            if not (b1 < b0 or l1 < l0):
                return "changed without improvement"
    return None


def handle(case):
    COUNTS.clear()
    block = [tuple(x) for x in case["block"]]
    opts = case["opts"]
    rnd = random.Random(case.get("sseed", 0))
    if case.get("solver_mode"):
        c01.use_standin(case["solver_mode"])
    orig, emitted, info = c01.run_pipeline(block, opts)
    params = c01.params_for(opts)
    res = {"changed": info["changed"], "viols": []}
    _count("pairs")
    if not info["changed"]:
        # unchanged blocks trivially satisfy the property; still check the meters agree on identity
        res["counts"] = dict(COUNTS)
        return res
    _count("changed_pairs")
    crit = criterion_of(opts)
    c = compare_costs(orig, emitted, params.push0, rnd, case.get("k", 16))
    _count("gas_states", c["gas_states"])
    if c.get("static_fallback"):
        _count("changed_pairs_without_informative_state")
    why = judge(crit, c)
    if c.get("static_undecided"):
        _count("changed_pairs_undecided_by_the_static_fallback")
        why = None if (why and ("gas" in why or "another criterion" in why or "without improvement" in why)) else why
    if c["bytes"][1] < c["bytes"][0]:
        _count("strictly_smaller")
    if c["length"][1] < c["length"][0]:
        _count("strictly_shorter")
    if c["gas_better"]:
        _count("strictly_cheaper_gas_on_some_state")
    if why == "gas increased on some state" and c.get("only_exp_pricing") and any(n == "EXP" for n, _ in orig):
        why = "gas increased only on states where EXP's exponent is shorter than the one byte the static price assumes"
    elif why and c.get("gas_explained") and "storage-model" in " ".join(c["gas_explained"]) and (
            why == "gas increased on some state" or
            (why.endswith("another criterion got worse") and c["bytes"][1] <= c["bytes"][0] and c["length"][1] <= c["length"][0])):
        # the only thing that got worse is gas, and only because storage accesses are priced statically by the tool
        why = "gas increased only where the static pricing of storage accesses (warm/cold by the written key term, " \
              "fixed SSTORE price) differs from the run-time price"
        _count("gas_increase_explained_by_static_storage_pricing")
    elif why and c.get("gas_explained") and "alias" in " ".join(c["gas_explained"]) and (
            why == "gas increased on some state" or
            (why.endswith("another criterion got worse") and c["bytes"][1] <= c["bytes"][0] and c["length"][1] <= c["length"][0])):
        # the only thing that got worse is gas, and only on states where two differently written keys coincide
        why = "gas increased only on states where differently written storage keys or addresses coincide " \
              "(the static gas model keys warm/cold accesses by their symbolic term)"
        _count("gas_increase_explained_by_aliasing")
    if why:
        res["viols"].append({"fingerprint": "criterion=%s: %s" % (crit, why),
                             "witness": {"in": evm.to_plain_string(orig), "out": evm.to_plain_string(emitted), "opts": opts,
                                         "bytes": c["bytes"], "length": c["length"], "gas_worse": c["gas_worse"],
                                         "rules": sorted(set(info["rules"]))}})
    res["counts"] = dict(COUNTS)
    if case.get("want_sample"):
        res["sample"] = {"in": evm.to_plain_string(orig)[:200], "out": evm.to_plain_string(emitted)[:200], "criterion": crit,
                         "bytes": c["bytes"], "length": c["length"]}
    return res


def run():
    from vlib import findings
    from monitors import common, cli_props
    r = findings.Run("C08")
    quick = common.tier() == "quick"
    n = 4000 if quick else 40000
    opts = [["-greedy"], ["-greedy", "-size"], ["-greedy", "-length"], ["-greedy", "-push0"], ["-greedy", "-size", "-push0"],
            ["-greedy", "-partition"], ["-greedy", "-size", "-storage"], ["-greedy", "-length", "-partition"]]
    cases = common.gen_cases(n, common.seed(), opts, k_states=12 if quick else 32)
    # ties in the selected criterion: blocks whose alternatives trade gas, bytes and instruction count against each other
    tr = common.gen_cases(n // 5, common.seed() + 88, opts, kinds=["tradeoff"], k_states=12 if quick else 32)
    for c in tr:
        c["idx"] += len(cases)
        c.pop("want_sample", None)
    cases = sorted(cases + tr, key=lambda c: c["_group"])
    # candidate selection among original / greedy / solver (-ub-greedy) with good and bad solver candidates
    from monitors import c06
    rs = random.Random(common.seed() + 808)
    solver_sets = [(["-solver", "z3", "-ub-greedy"], "optimal"), (["-solver", "z3", "-ub-greedy"], "model:4"),
                   (["-solver", "z3", "-ub-greedy", "-size"], "model:2"), (["-solver", "oms", "-ub-greedy", "-length"], "model:6"),
                   (["-solver", "z3", "-size"], "model:1")]
    n_solver = 30 if quick else 300
    for (o, mode) in solver_sets:
        blocks = c06.dep_blocks(rs, n_solver // 2) + [gen.gen_block(rs, "short")[0][:7] for _ in range(n_solver // 2)]
        for b in blocks:
            cases.append({"block": b, "opts": o, "sseed": rs.getrandbits(30), "kind": "solver:" + mode.split(":")[0],
                          "_group": " ".join(o) + "#" + mode, "k": 12, "idx": len(cases), "solver_mode": mode, "_cpu": 120})
    cases.sort(key=lambda c: c["_group"])
    col = common.Collector(r)
    st = common.run_pool("monitors.c08:handle", cases, col, cpu_budget=20.0)
    c = col.counts
    # totals through the CLI
    tot = cli_props.run_totals(r, n_docs=8 if quick else 32, seed=common.seed())
    for need in ("changed_pairs", "gas_states"):
        if c.get(need, 0) == 0:
            r.inconclusive.append("!never reached: " + need)
    if tot.get("cli_runs_reconciled", 0) == 0:
        r.inconclusive.append("!no CLI run reconciled")
    r.coverage.update({"pairs": c.get("pairs", 0), "changed_pairs": c.get("changed_pairs", 0),
                       "strictly_smaller": c.get("strictly_smaller", 0), "strictly_shorter": c.get("strictly_shorter", 0),
                       "cheaper_gas_on_some_state": c.get("strictly_cheaper_gas_on_some_state", 0),
                       "gas_states_metered": c.get("gas_states", 0),
                       "changed_pairs_without_informative_state": c.get("changed_pairs_without_informative_state", 0),
                       "changed_pairs_undecided_by_the_static_fallback": c.get("changed_pairs_undecided_by_the_static_fallback", 0),
                       "blocks_per_option_set": dict(col.by_group), "totals": tot,
                       "budget_exceeded_cases": {k: v for k, v in col.stat.items() if k.startswith("budget_")}, "pool": st})
    r.assumptions = ["bytes per solc AssemblyItem::bytesRequired with address length 2; gas metered by vlib/evm.py "
                     "(EIP-2929 cold/warm accesses, memory expansion, EXP/KECCAK/COPY/LOG dynamic parts, no refunds)",
                     "gas is compared on sampled states; 'equal gas' means equal on all sampled states",
                     "totals: printed size/length totals are recomputed independently from the files; printed gas totals "
                     "are reconciled with the per-block rows of the tool's own blocks CSV (the tool's gas figure is a static "
                     "estimate, ours is metered, so only its additivity is checked)"]
    return r.finish(evaluations=c.get("pairs", 0), distinct_nontrivial=c.get("changed_pairs", 0),
                    rule="generated blocks through the real pipeline under the three criteria; non-trivial = pair whose "
                         "emitted block differs from the input (measured by the independent meters)")
