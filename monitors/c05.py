"""C05 — the built-in equivalence checkers never accept distinguishable blocks.

Workload: (block, semantic mutant) pairs for which the reference interpreter has a concrete
distinguishing state; the repository's compare_asm_block_asm_format must answer False.
Reflexivity: checker(B, B) is True and does not raise.  The forves adapter's rendering is
re-read by our own reader of its format and must be faithful.
"""
import copy
import random

from vlib import evm, gen, drive
from monitors import c01

COUNTS = {}
NONCOMM = ["SUB", "DIV", "SDIV", "MOD", "SMOD", "LT", "GT", "SLT", "SGT", "SHL", "SHR", "SAR", "EXP", "BYTE",
           "SIGNEXTEND"]
SUBST = {"LT": ["SLT", "GT"], "SLT": ["LT", "SGT"], "GT": ["SGT", "LT"], "SGT": ["GT", "SLT"], "DIV": ["SDIV", "MOD"],
         "SDIV": ["DIV"], "MOD": ["SMOD", "DIV"], "SMOD": ["MOD"], "SHR": ["SAR", "SHL"], "SAR": ["SHR"],
         "SHL": ["SHR"], "ADD": ["SUB", "OR"], "SUB": ["ADD"], "AND": ["OR"], "OR": ["AND", "XOR"], "XOR": ["OR"],
         "MSTORE": ["MSTORE8"], "MSTORE8": ["MSTORE"], "MUL": ["ADD"], "EQ": ["LT"], "ISZERO": ["NOT"], "NOT": ["ISZERO"],
         "MLOAD": ["SLOAD"], "SLOAD": ["MLOAD"], "CALLER": ["ORIGIN"], "ADDMOD": ["MULMOD"], "MULMOD": ["ADDMOD"],
         "CALL": ["CALLCODE"], "DELEGATECALL": ["STATICCALL"], "STATICCALL": ["DELEGATECALL"],
         "CALLDATACOPY": ["CODECOPY", "RETURNDATACOPY"], "CODECOPY": ["CALLDATACOPY"], "SSTORE": ["MSTORE"],
         "CREATE": ["MULMOD"], "LOG1": ["CALLDATACOPY"]}


def _count(k, n=1):
    COUNTS[k] = COUNTS.get(k, 0) + n


def mutants(block, rnd, limit=6):
    """list of (kind, mutant block)"""
    out = []
    idx = list(range(len(block)))
    rnd.shuffle(idx)
    for i in idx:
        n, v = block[i]
        cands = []
        if n in NONCOMM:
            cands.append(("operand-swap " + n, block[:i] + [("SWAP1", None)] + block[i:]))
        if n in SUBST:
            m = rnd.choice(SUBST[n])
            cands.append(("opcode %s->%s" % (n, m), block[:i] + [(m, None)] + block[i + 1:]))
        if n == "PUSH":
            c = int(v, 16)
            d = rnd.choice([1, -1, 32, 1 << 8])
            c2 = (c + d) % (1 << 256)
            cands.append(("constant change", block[:i] + [("PUSH", "%x" % c2)] + block[i + 1:]))
        if n in ("MSTORE", "SSTORE", "MSTORE8"):
            cands.append(("dropped store " + n, block[:i] + [("POP", None), ("POP", None)] + block[i + 1:]))
            cands.append(("store operands swapped " + n, block[:i] + [("SWAP1", None)] + block[i:]))
            cands.append(("store duplicated with other value " + n,
                          block[:i] + [("DUP2", None), ("DUP2", None), (n, None), ("PUSH", "1"), ("ADD", None)] + block[i:]))
        if n.startswith("DUP") or n.startswith("SWAP"):
            base = "DUP" if n.startswith("DUP") else "SWAP"
            k = int(n[len(base):])
            for k2 in (k + 1, k - 1):
                if 1 <= k2 <= 16:
                    cands.append(("%s index" % base, block[:i] + [("%s%d" % (base, k2), None)] + block[i + 1:]))
        if n in gen.ENV0:
            cands.append(("env read substituted", block[:i] + [(rnd.choice([e for e in gen.ENV0 if e != n]), None)] + block[i + 1:]))
        for c in cands:
            out.append(c)
        if len(out) >= limit * 3:
            break
    rnd.shuffle(out)
    return out[:limit]


def call_checker(b_old, b_new, params):
    ga = drive.R["gasol_asm"]
    try:
        eq, reason = ga.compare_asm_block_asm_format(b_old, copy.deepcopy(b_new), params)
        return bool(eq), reason, None
    except Exception as e:
        return None, None, "%s: %s" % (type(e).__name__, str(e)[:100])


def handle(case):
    COUNTS.clear()
    drive.setup()
    params = c01.params_for(case["opts"])
    rnd = random.Random(case.get("sseed", 0))
    block = [tuple(x) for x in case["block"]]
    # keep a single basic block: strip terminals in the middle
    viols = []
    blocks = drive.build_blocks(gen.to_items(block))
    if len(blocks) != 1:
        return {"viols": [], "counts": {"skipped_multi_block": 1}}
    b0 = blocks[0]
    if b0.instructions_to_optimize_plain() == []:
        return {"viols": [], "counts": {"skipped_empty": 1}}
    # reflexivity
    eq, reason, exc = call_checker(b0, copy.deepcopy(b0), params)
    _count("reflexive_calls")
    if exc:
        _count("reflexive_raises")
        viols.append({"fingerprint": "checker(B,B) raises %s" % exc.split(":")[0],
                      "witness": {"block": evm.to_plain_string(block), "err": exc}})
    elif not eq:
        viols.append({"fingerprint": "checker(B,B) answers not-equal",
                      "witness": {"block": evm.to_plain_string(block), "reason": str(reason)[:200]}})
    need, delta = evm.stack_effect(block)
    sample = None
    muts = mutants(block, rnd, case.get("n_mut", 5))
    if case.get("stmts"):
        # reordering mutants: two statements (stack-neutral groups of instructions) exchanged or one moved
        st = [[tuple(x) for x in s_] for s_ in case["stmts"]]
        muts = []
        for i in range(len(st) - 1):
            sw = st[:i] + [st[i + 1], st[i]] + st[i + 2:]
            muts.append(("reordered statements", [p for s_ in sw for p in s_]))
        if len(st) >= 3:
            i, j = rnd.sample(range(len(st)), 2)
            mv = list(st)
            x = mv.pop(i)
            mv.insert(j, x)
            muts.append(("moved statement", [p for s_ in mv for p in s_]))
    for kind, mb in muts:
        try:
            need2, delta2 = evm.stack_effect(mb)
        except KeyError:
            continue
        if need2 > 20:
            continue
        _count("mutants_generated")
        wit = None
        depth = max(need, need2)
        for st in gen.sample_states(rnd, block, case.get("k", 20), depth):
            o1 = evm.observe(block, st)
            if o1.halt in ("oog", "underflow", "badop"):
                continue
            o2 = evm.observe(mb, st)
            if o2.halt in ("underflow", "badop", "oog"):
                continue        # an out-of-gas halt of a (possibly dead) access is not counted as a difference here
            if o1.key() != o2.key():
                wit = (st, evm.explain(o1, o2))
                break
        if wit is None:
            _count("mutants_without_witness")
            continue
        _count("mutants_witnessed")
        _count("kind " + kind.split(" ")[0])
        mblocks = drive.build_blocks(gen.to_items(mb))
        if len(mblocks) != 1:
            continue
        eq, reason, exc = call_checker(b0, mblocks[0], params)
        _count("checker_calls_on_distinguishable_pairs")
        if exc:
            _count("checker_raises_on_pair")
            viols.append({"fingerprint": "checker raises on a well-formed pair: %s" % exc.split(":")[0],
                          "witness": {"block": evm.to_plain_string(block), "mutant": evm.to_plain_string(mb), "err": exc,
                                      "kind": kind}})
        elif eq:
            _count("accepted")
            viols.append({"fingerprint": "checker accepts a distinguishable pair: " + kind,
                          "witness": {"block": evm.to_plain_string(block), "mutant": evm.to_plain_string(mb),
                                      "state": wit[0].to_json(), "difference": wit[1], "kind": kind}})
        else:
            _count("rejected")
            if sample is None:
                sample = {"block": evm.to_plain_string(block)[:200], "mutant": evm.to_plain_string(mb)[:200], "kind": kind,
                          "checker_reason": str(reason)[:120]}
    drive.clean_scratch()
    res = {"viols": viols, "counts": dict(COUNTS)}
    if case.get("want_sample") and sample:
        res["sample"] = sample
    return res


def run():
    from vlib import findings
    from monitors import common
    r = findings.Run("C05")
    quick = common.tier() == "quick"
    n = 2500 if quick else 25000
    opts = [["-greedy"], ["-greedy", "-storage"], ["-greedy", "-partition"], ["-greedy", "-no-simplification"],
            ["-greedy", "-size"]]
    cases = common.gen_cases(n, common.seed(), opts, kinds=["grammar", "mem", "rule", "short", "split", "grammar"],
                             k_states=20 if quick else 40)
    rnd = random.Random(common.seed() + 5)
    for i in range(n // 3):
        stmts, nin = gen.gen_stmt_block(rnd)
        o = opts[i % len(opts)]
        cases.append({"block": [p for s_ in stmts for p in s_], "stmts": stmts, "opts": o, "_group": " ".join(o),
                      "sseed": rnd.getrandbits(30), "kind": "statements", "k": 24, "idx": n + i})
    cases.sort(key=lambda c: c["_group"])
    col = common.Collector(r)
    st = common.run_pool("monitors.c05:handle", cases, col, cpu_budget=60.0)
    c = col.counts
    for need in ("reflexive_calls", "checker_calls_on_distinguishable_pairs", "rejected"):
        if c.get(need, 0) == 0:
            r.inconclusive.append("!never reached: " + need)
    r.coverage.update({"reflexive_calls": c.get("reflexive_calls", 0), "mutants_generated": c.get("mutants_generated", 0),
                       "mutants_with_a_distinguishing_state": c.get("mutants_witnessed", 0),
                       "pairs_rejected_by_checker": c.get("rejected", 0), "pairs_accepted_by_checker": c.get("accepted", 0),
                       "checker_exceptions_on_pairs": c.get("checker_raises_on_pair", 0),
                       "witnessed_pairs_per_mutator": {k[5:]: v for k, v in c.items() if k.startswith("kind ")},
                       "blocks_per_option_set": dict(col.by_group), "blocks_per_generator": dict(col.by_kind),
                       "budget_exceeded_cases": {k: v for k, v in col.stat.items() if k.startswith("budget_")}, "pool": st})
    r.assumptions = ["a mutant counts only with a concrete distinguishing state found by vlib/evm.py",
                     "pairs are single basic blocks without terminal in the middle"]
    return r.finish(evaluations=c.get("reflexive_calls", 0) + c.get("checker_calls_on_distinguishable_pairs", 0),
                    distinct_nontrivial=c.get("checker_calls_on_distinguishable_pairs", 0),
                    rule="generated block + semantic mutant (operand swap, opcode substitution, constant change, dropped/"
                         "swapped/duplicated store, DUP/SWAP index, env read) with a concrete distinguishing state; "
                         "non-trivial = witnessed (block, mutant) pair given to the tool's checker")
