"""C05 — the built-in equivalence checkers never accept distinguishable blocks.

Workload: (block, semantic mutant) pairs for which the reference interpreter has a concrete
distinguishing state; the repository's compare_asm_block_asm_format must answer False.
Reflexivity: checker(B, B) is True and does not raise.  The forves adapter's rendering is
re-read by our own reader of its format and must be faithful.
"""
import copy
import random

from vlib import evm, gen, drive
from monitors import c01

COUNTS = {}
NONCOMM = ["SUB", "DIV", "SDIV", "MOD", "SMOD", "LT", "GT", "SLT", "SGT", "SHL", "SHR", "SAR", "EXP", "BYTE",
           "SIGNEXTEND"]
SUBST = {"LT": ["SLT", "GT"], "SLT": ["LT", "SGT"], "GT": ["SGT", "LT"], "SGT": ["GT", "SLT"], "DIV": ["SDIV", "MOD"],
         "SDIV": ["DIV"], "MOD": ["SMOD", "DIV"], "SMOD": ["MOD"], "SHR": ["SAR", "SHL"], "SAR": ["SHR"],
         "SHL": ["SHR"], "ADD": ["SUB", "OR"], "SUB": ["ADD"], "AND": ["OR"], "OR": ["AND", "XOR"], "XOR": ["OR"],
         "MSTORE": ["MSTORE8"], "MSTORE8": ["MSTORE"], "MUL": ["ADD"], "EQ": ["LT"], "ISZERO": ["NOT"], "NOT": ["ISZERO"],
         "MLOAD": ["SLOAD"], "SLOAD": ["MLOAD"], "CALLER": ["ORIGIN"], "ADDMOD": ["MULMOD"], "MULMOD": ["ADDMOD"],
         "CALL": ["CALLCODE"], "DELEGATECALL": ["STATICCALL"], "STATICCALL": ["DELEGATECALL"],
         "CALLDATACOPY": ["CODECOPY", "RETURNDATACOPY"], "CODECOPY": ["CALLDATACOPY"], "SSTORE": ["MSTORE"],
         "CREATE": ["MULMOD"], "LOG1": ["CALLDATACOPY"]}


def _count(k, n=1):
    COUNTS[k] = COUNTS.get(k, 0) + n


def mutants(block, rnd, limit=6):
    """list of (kind, mutant block)"""
    out = []
    idx = list(range(len(block)))
    rnd.shuffle(idx)
    for i in idx:
        n, v = block[i]
        cands = []
        ar = evm.ARITY.get(n, (0, 0))[0]
        if n in NONCOMM:
            cands.append(("operand-swap " + n, block[:i] + [("SWAP1", None)] + block[i:]))
        elif ar == 2 and not n.startswith(("DUP", "SWAP")) and n not in ("MSTORE", "SSTORE", "MSTORE8") and rnd.random() < 0.3:
            # operations the front-end treats as commutative (or not): the oracle decides whether a state tells them apart
            cands.append(("operand-swap " + n, block[:i] + [("SWAP1", None)] + block[i:]))
        if ar >= 3 and not n.startswith(("DUP", "SWAP")):
            # every transposition of two operands of a ternary (or wider) operation
            for a_ in range(1, min(ar, 7)):
                cands.append(("operand-swap %s (1,%d)" % (n, a_ + 1), block[:i] + [("SWAP%d" % a_, None)] + block[i:]))
            if ar >= 3:
                cands.append(("operand-swap %s (2,3)" % n,
                              block[:i] + [("SWAP1", None), ("SWAP2", None), ("SWAP1", None)] + block[i:]))
        if n in SUBST:
            m = rnd.choice(SUBST[n])
            cands.append(("opcode %s->%s" % (n, m), block[:i] + [(m, None)] + block[i + 1:]))
        if n == "PUSH":
            c = int(v, 16)
            d = rnd.choice([1, -1, 32, 1 << 8])
            c2 = (c + d) % (1 << 256)
            cands.append(("constant change", block[:i] + [("PUSH", "%x" % c2)] + block[i + 1:]))
        if n in ("MSTORE", "SSTORE", "MSTORE8"):
            cands.append(("dropped store " + n, block[:i] + [("POP", None), ("POP", None)] + block[i + 1:]))
            cands.append(("store operands swapped " + n, block[:i] + [("SWAP1", None)] + block[i:]))
            cands.append(("store duplicated with other value " + n,
                          block[:i] + [("DUP2", None), ("DUP2", None), (n, None), ("PUSH", "1"), ("ADD", None)] + block[i:]))
        if n.startswith("DUP") or n.startswith("SWAP"):
            base = "DUP" if n.startswith("DUP") else "SWAP"
            k = int(n[len(base):])
            for k2 in (k + 1, k - 1):
                if 1 <= k2 <= 16:
                    cands.append(("%s index" % base, block[:i] + [("%s%d" % (base, k2), None)] + block[i + 1:]))
        if n in gen.ENV0:
            cands.append(("env read substituted", block[:i] + [(rnd.choice([e for e in gen.ENV0 if e != n]), None)] + block[i + 1:]))
        for c in cands:
            out.append(c)
        if len(out) >= limit * 3:
            break
    rnd.shuffle(out)
    return out[:limit]


def call_checker(b_old, b_new, params):
    ga = drive.R["gasol_asm"]
    try:
        eq, reason = ga.compare_asm_block_asm_format(b_old, copy.deepcopy(b_new), params)
        return bool(eq), reason, None
    except Exception as e:
        return None, None, "%s: %s" % (type(e).__name__, str(e)[:100])


# ------------------------------------------------------------------ forves adapter rendering
META_ID = {"PUSHDEPLOYADDRESS": 0, "PUSHSIZE": 1, "PUSHLIB": 2, "PUSHIMMUTABLE": 3, "PUSH data": 4, "PUSH [tag]": 5,
           "PUSH [$]": 6, "PUSH #[$]": 7}
SEPARATORS = {"tag", "JUMPDEST", "JUMP", "JUMPI", "STOP", "RETURN", "REVERT", "INVALID", "SELFDESTRUCT", "LOG0", "LOG1", "LOG2",
              "LOG3", "LOG4", "CALLDATACOPY", "CODECOPY", "EXTCODECOPY", "RETURNDATACOPY", "CALL", "STATICCALL", "DELEGATECALL",
              "CREATE", "CREATE2", "ASSIGNIMMUTABLE", "GAS"}


def expected_segments(pairs, storage_split):
    """our own segmentation of a block for the external checker: list of segments (lists of normalized items)"""
    seps = SEPARATORS | ({"SSTORE", "MSTORE", "MSTORE8"} if storage_split else set())
    segs, cur = [], []
    for n, v in pairs:
        if n in seps:
            if cur:
                segs.append(cur)
            cur = []
            continue
        if n == "PUSH0" or (n == "PUSH" and int(v, 16) == 0 and v == "0"):
            cur.append(("PUSH", 0, 1))
        elif n == "PUSH":
            cur.append(("PUSH", int(v, 16), (len(v) + 1) // 2))
        elif n in META_ID:
            cur.append(("META", META_ID[n], 0 if v is None else str(v).lower()))
        else:
            cur.append((n,))
    if cur:
        segs.append(cur)
    return segs


def parse_forves_tokens(text):
    toks = text.split(" ")
    out = []
    i = 0
    while i < len(toks):
        t = toks[i]
        if t.startswith("PUSH") and t[4:].isdigit():
            out.append(("PUSH", int(toks[i + 1], 16), int(t[4:])))
            i += 2
        elif t == "METAPUSH":
            v = toks[i + 2]
            out.append(("META", int(toks[i + 1]), 0 if v == "0x0" else v[2:].lower()))
            i += 3
        else:
            out.append((t,))
            i += 1
    return out


def check_adapter(b_old, b_new, params, viols, label):
    """forves_format(old, new) must render every optimizable segment pair faithfully"""
    import io
    import contextlib
    fv = drive.R.get("forves")
    if fv is None:
        import verification.forves_verification as fv
        drive.R["forves"] = fv
    t_old, t_new = b_old.to_plain(), b_new.to_plain()
    p_old = [(bc.disasm, None if bc.value is None else str(bc.value)) for bc in b_old.instructions]
    p_new = [(bc.disasm, None if bc.value is None else str(bc.value)) for bc in b_new.instructions]
    if any(n == "PUSHLIB" for n, _ in p_old + p_new):
        return
    e_old, e_new = expected_segments(p_old, params.split_storage), expected_segments(p_new, params.split_storage)
    seps = SEPARATORS | ({"SSTORE", "MSTORE", "MSTORE8"} if params.split_storage else set())
    if [n for n, _ in p_old if n in seps] != [n for n, _ in p_new if n in seps]:
        return            # different split instructions: the adapter refuses the pair, which is not a 'true'
    vocab = set(fv.bytecode_vocab)
    if any(len(it) == 1 and it[0] not in vocab for seg in e_old + e_new for it in seg) or len(e_old) != len(e_new):
        _count("adapter_pairs_outside_vocabulary")
        return
    with contextlib.redirect_stdout(io.StringIO()), contextlib.redirect_stderr(io.StringIO()):
        try:
            text = fv.forves_format(t_old, t_new)
        except Exception as e:
            viols.append({"fingerprint": "forves adapter raises %s on a supported pair" % type(e).__name__,
                          "witness": {"old": t_old[:300], "new": t_new[:300]}})
            return
    _count("adapter_renderings_checked")
    if text is None:
        viols.append({"fingerprint": "forves adapter fails to render a supported pair",
                      "witness": {"old": t_old[:300], "new": t_new[:300], "label": label}})
        return
    lines = text.split("\n") if text else []
    groups = [lines[i:i + 4] for i in range(0, len(lines), 4)]
    if len(e_old) > 1:
        _count("adapter_multi_segment_pairs")
    if len(groups) != len(e_old):
        viols.append({"fingerprint": "forves adapter renders %s groups than optimizable segments" % (
            "fewer" if len(groups) < len(e_old) else "more"),
            "witness": {"old": t_old[:300], "new": t_new[:300], "groups": len(groups), "segments": len(e_old)}})
        return
    for k, (g, so, sn) in enumerate(zip(groups, e_old, e_new)):
        try:
            ok = g[0] == "#" and parse_forves_tokens(g[1]) == sn and parse_forves_tokens(g[2]) == so and g[3].isdigit()
        except Exception:
            ok = False
        if not ok:
            cls = "segment %s rendered with the content of other segments" % ("k>0" if k else "0") \
                if len(e_old) > 1 else "single segment rendered wrongly"
            viols.append({"fingerprint": "forves adapter rendering is not faithful: " + cls,
                          "witness": {"old": t_old[:300], "new": t_new[:300], "group": g[:3], "segment_index": k}})
            return


def handle(case):
    COUNTS.clear()
    drive.setup()
    params = c01.params_for(case["opts"])
    rnd = random.Random(case.get("sseed", 0))
    block = [tuple(x) for x in case["block"]]
    # keep a single basic block: strip terminals in the middle
    viols = []
    blocks = drive.build_blocks(gen.to_items(block))
    if len(blocks) != 1:
        return {"viols": [], "counts": {"skipped_multi_block": 1}}
    b0 = blocks[0]
    if b0.instructions_to_optimize_plain() == []:
        return {"viols": [], "counts": {"skipped_empty": 1}}
    # reflexivity
    eq, reason, exc = call_checker(b0, copy.deepcopy(b0), params)
    _count("reflexive_calls")
    if exc:
        _count("reflexive_raises")
        viols.append({"fingerprint": "checker(B,B) raises %s" % exc.split(":")[0],
                      "witness": {"block": evm.to_plain_string(block), "err": exc}})
    elif not eq:
        viols.append({"fingerprint": "checker(B,B) answers not-equal",
                      "witness": {"block": evm.to_plain_string(block), "reason": str(reason)[:200]}})
    check_adapter(b0, copy.deepcopy(b0), params, viols, "reflexive")
    need, delta = evm.stack_effect(block)
    sample = None
    muts = mutants(block, rnd, case.get("n_mut", 5))
    if case.get("stmts"):
        # reordering mutants: two statements (stack-neutral groups of instructions) exchanged or one moved
        st = [[tuple(x) for x in s_] for s_ in case["stmts"]]
        muts = []
        for i in range(len(st) - 1):
            sw = st[:i] + [st[i + 1], st[i]] + st[i + 2:]
            muts.append(("reordered statements", [p for s_ in sw for p in s_]))
        if len(st) >= 3:
            i, j = rnd.sample(range(len(st)), 2)
            mv = list(st)
            x = mv.pop(i)
            mv.insert(j, x)
            muts.append(("moved statement", [p for s_ in mv for p in s_]))
    for kind, mb in muts:
        try:
            need2, delta2 = evm.stack_effect(mb)
        except KeyError:
            continue
        if need2 > 20:
            continue
        _count("mutants_generated")
        wit = None
        depth = max(need, need2)
        for st in gen.sample_states(rnd, block, case.get("k", 20), depth):
            o1 = evm.observe(block, st)
            if o1.halt in ("oog", "underflow", "badop"):
                continue
            o2 = evm.observe(mb, st)
            if o2.halt in ("underflow", "badop", "oog"):
                continue        # an out-of-gas halt of a (possibly dead) access is not counted as a difference here
            if o1.key() != o2.key():
                wit = (st, evm.explain(o1, o2))
                break
        if wit is None:
            _count("mutants_without_witness")
            continue
        _count("mutants_witnessed")
        _count("kind " + kind.split(" ")[0])
        mblocks = drive.build_blocks(gen.to_items(mb))
        if len(mblocks) != 1:
            continue
        if rnd.random() < 0.3:
            check_adapter(b0, mblocks[0], params, viols, kind)
        eq, reason, exc = call_checker(b0, mblocks[0], params)
        _count("checker_calls_on_distinguishable_pairs")
        if exc:
            _count("checker_raises_on_pair")
            viols.append({"fingerprint": "checker raises on a well-formed pair: %s" % exc.split(":")[0],
                          "witness": {"block": evm.to_plain_string(block), "mutant": evm.to_plain_string(mb), "err": exc,
                                      "kind": kind}})
        elif eq:
            _count("accepted")
            viols.append({"fingerprint": "checker accepts a distinguishable pair: " + kind,
                          "witness": {"block": evm.to_plain_string(block), "mutant": evm.to_plain_string(mb),
                                      "state": wit[0].to_json(), "difference": wit[1], "kind": kind}})
        else:
            _count("rejected")
            if sample is None:
                sample = {"block": evm.to_plain_string(block)[:200], "mutant": evm.to_plain_string(mb)[:200], "kind": kind,
                          "checker_reason": str(reason)[:120]}
    drive.clean_scratch()
    res = {"viols": viols, "counts": dict(COUNTS)}
    if case.get("want_sample") and sample:
        res["sample"] = sample
    return res


def run():
    from vlib import findings
    from monitors import common
    r = findings.Run("C05")
    quick = common.tier() == "quick"
    n = 2500 if quick else 25000
    opts = [["-greedy"], ["-greedy", "-storage"], ["-greedy", "-partition"], ["-greedy", "-no-simplification"],
            ["-greedy", "-size"]]
    cases = common.gen_cases(n, common.seed(), opts, kinds=["grammar", "mem", "rule", "short", "split", "grammar"],
                             k_states=20 if quick else 40)
    rnd = random.Random(common.seed() + 5)
    # statement blocks: twice as many under -no-simplification (dead and duplicated stores stay in the specification,
    # so the checker has to tell identically written instructions apart by their position)
    stmt_opts = opts + [["-greedy", "-no-simplification"], ["-greedy", "-no-simplification"], ["-greedy"]]
    for i in range(n):
        stmts, nin = gen.gen_stmt_block(rnd)
        o = stmt_opts[i % len(stmt_opts)]
        cases.append({"block": [p for s_ in stmts for p in s_], "stmts": stmts, "opts": o, "_group": " ".join(o),
                      "sseed": rnd.getrandbits(30), "kind": "statements", "k": 24, "idx": n + i})
    cases.sort(key=lambda c: c["_group"])
    col = common.Collector(r)
    st = common.run_pool("monitors.c05:handle", cases, col, cpu_budget=60.0)
    c = col.counts
    for need in ("reflexive_calls", "checker_calls_on_distinguishable_pairs", "rejected"):
        if c.get(need, 0) == 0:
            r.inconclusive.append("!never reached: " + need)
    r.coverage.update({"reflexive_calls": c.get("reflexive_calls", 0), "mutants_generated": c.get("mutants_generated", 0),
                       "mutants_with_a_distinguishing_state": c.get("mutants_witnessed", 0),
                       "pairs_rejected_by_checker": c.get("rejected", 0), "pairs_accepted_by_checker": c.get("accepted", 0),
                       "checker_exceptions_on_pairs": c.get("checker_raises_on_pair", 0),
                       "forves_adapter_renderings_checked": c.get("adapter_renderings_checked", 0),
                       "forves_adapter_multi_segment_pairs": c.get("adapter_multi_segment_pairs", 0),
                       "forves_adapter_pairs_outside_its_vocabulary": c.get("adapter_pairs_outside_vocabulary", 0),
                       "witnessed_pairs_per_mutator": {k[5:]: v for k, v in c.items() if k.startswith("kind ")},
                       "blocks_per_option_set": dict(col.by_group), "blocks_per_generator": dict(col.by_kind),
                       "budget_exceeded_cases": {k: v for k, v in col.stat.items() if k.startswith("budget_")}, "pool": st})
    r.assumptions = ["a mutant counts only with a concrete distinguishing state found by vlib/evm.py",
                     "pairs are single basic blocks without terminal in the middle"]
    return r.finish(evaluations=c.get("reflexive_calls", 0) + c.get("checker_calls_on_distinguishable_pairs", 0),
                    distinct_nontrivial=c.get("checker_calls_on_distinguishable_pairs", 0),
                    rule="generated block + semantic mutant (operand swap, opcode substitution, constant change, dropped/"
                         "swapped/duplicated store, DUP/SWAP index, env read) with a concrete distinguishing state; "
                         "non-trivial = witnessed (block, mutant) pair given to the tool's checker")
