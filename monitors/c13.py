"""C13 — specification generation and greedy search are deterministic.

The same (input, options) is run in separate processes with different PYTHONHASHSEED values,
different working directories and under load (all runs of a batch execute concurrently on the
16 cores); specification JSONs (identifiers included), greedy id lists (the log) and emitted
files must be byte-identical."""
import glob
import json
import os
import random

from vlib import clirun, gen
from monitors import cli_props


def artefacts(res):
    a = {"optimized": res.text_file("_optimized.json_solc"), "log": res.text_file("input.log")}
    for n, c in sorted(res.specs.items()):
        a["spec:" + n] = c
    # statistics without timing columns
    rows = cli_props.read_csv(res.text_file("_statistics_seq.csv"))
    a["stats"] = json.dumps([{k: v for k, v in r.items() if k not in ("solver_time_in_sec", "")} for r in rows], sort_keys=True)
    rows = cli_props.read_csv(res.text_file("blocks.csv"))
    a["blocks"] = json.dumps([{k: v for k, v in r.items() if k != ""} for r in rows], sort_keys=True)
    return a


def run():
    from vlib import findings
    from monitors import common
    r = findings.Run("C13")
    quick = common.tier() == "quick"
    rnd = random.Random(common.seed() + 13)
    seeds = ["0", "1", "2", "3", "5", "7"] if quick else ["0", "1", "2", "3", "5", "7", "9", "42", "1000", "random"]
    n_docs = 16 if quick else 60
    optsets = [["-greedy"], ["-greedy", "-partition"], ["-greedy", "-size"], ["-greedy", "-storage"]]
    inputs = []
    for i in range(n_docs):
        doc = gen.gen_document(rnd, n_contracts=rnd.randrange(1, 3), kinds=["mem", "symm", "symm", "grammar", "rule", "split", "long", "dupterms"])
        inputs.append((doc, optsets[i % len(optsets)], "generated document %d" % i))
    shipped = sorted(glob.glob(os.environ.get("GASOL_VERIF_REPO", "/repo") + "/examples/jsons-solc/*.json_solc"), key=os.path.getsize)[:(1 if quick else 4)]
    for p in shipped:
        with open(p) as f:
            inputs.append((json.load(f), ["-greedy"], "shipped " + os.path.basename(p)))
    jobs = []
    for doc, opts, label in inputs:
        for hs in seeds:
            jobs.append((doc, opts + ["-log", "-intermediate"], hs))
    results = cli_props.parallel(jobs, lambda d, o, hs: clirun.run_cli(d, o, hashseed=hs, timeout=1800, collect_specs=True))
    counts = {"runs": len(jobs), "run_pairs_compared": 0, "artefacts_compared": 0, "spec_files_compared": 0, "inputs": len(inputs),
              "hash_seeds": seeds}
    k = 0
    for doc, opts, label in inputs:
        group = results[k:k + len(seeds)]
        k += len(seeds)
        if any([clirun.watchdog(g, r, label) for g in group]):
            continue
        if any(g.rc != 0 for g in group):
            bad = next(g for g in group if g.rc != 0)
            r.witness("CLI run failed (rc=%s) in the determinism batch" % bad.rc, {"doc": label, "stderr": bad.stderr_tail[-400:]})
            continue
        base = artefacts(group[0])
        for hs, g in zip(seeds[1:], group[1:]):
            counts["run_pairs_compared"] += 1
            a = artefacts(g)
            if set(a) != set(base):
                r.witness("different set of artefacts across processes", {"doc": label, "seeds": [seeds[0], hs],
                                                                           "only": sorted(set(a) ^ set(base))[:5]})
                continue
            for name in sorted(base):
                counts["artefacts_compared"] += 1
                if name.startswith("spec:"):
                    counts["spec_files_compared"] += 1
                if a[name] != base[name]:
                    kind = "specification JSON" if name.startswith("spec:") else name
                    detail = None
                    try:
                        ja, jb = json.loads(base[name]), json.loads(a[name])
                        if isinstance(ja, dict) and isinstance(jb, dict):
                            keys = [k_ for k_ in ja if ja.get(k_) != jb.get(k_)] + [k_ for k_ in jb if k_ not in ja]
                            detail = {"differing_keys": keys[:8], "first": [str(ja.get(keys[0]))[:200], str(jb.get(keys[0]))[:200]],
                                      "original_instrs": str(ja.get("original_instrs"))[:600]}
                    except Exception:
                        la, lb = str(base[name]).splitlines(), str(a[name]).splitlines()
                        for x, y in zip(la, lb):
                            if x != y:
                                detail = {"first_differing_line": [x[:300], y[:300]]}
                                break
                    r.witness("%s differs between two processes" % kind,
                              {"doc": label, "opts": opts, "hash_seeds": [seeds[0], hs], "artefact": name, "detail": detail,
                               "document": doc if len(json.dumps(doc)) < 200000 else "(too large; regenerate from VERIF_SEED)"})
                    break
        if len(r.samples) < 2:
            r.add_sample({"doc": label, "opts": opts, "artefacts": len(base), "spec_files": sum(1 for n in base if n.startswith("spec:"))})
    for need in ("run_pairs_compared", "spec_files_compared"):
        if counts.get(need, 0) == 0:
            r.inconclusive.append("!never reached: " + need)
    r.coverage.update(counts)
    r.assumptions = ["timing columns and the temporary directory name are masked; everything else is compared byte for byte",
                     "finitely many hash seeds and one load level (all runs of the batch concurrently) are observed"]
    return r.finish(evaluations=len(jobs), distinct_nontrivial=counts["run_pairs_compared"],
                    rule="CLI runs of the same input/options under different PYTHONHASHSEED, scratch directories and concurrent "
                         "load; non-trivial = pair of runs whose artefacts (spec JSONs, log, optimized file, CSV rows) were compared")
