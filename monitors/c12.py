"""C12 — a block's result does not depend on what was processed before it.

The same multiset of blocks is processed by *separate fresh processes* in forward, reverse and
shuffled orders, and each block also alone (empty history); per block the specification
dictionaries, the sub-block list, the emitted block and the statistics rows (without timings) are
compared as canonical JSON across all histories."""
import hashlib
import json
import random

from vlib import evm, gen, drive
from monitors import c01


def result_of(block, params):
    blocks = drive.build_blocks(gen.to_items(block))
    out = []
    with drive.SpecRecorder() as rec:
        for b in blocks:
            r = drive.run_block(b, params)
            rows = [{k: v for k, v in row.items() if k not in ("solver_time_in_sec",)} for row in r["csv"]]
            out.append({"emitted": drive.asm_pairs(r["emitted"]), "exc": [r["exc_opt"], r["exc_cmp"]], "eq": r["eq"],
                        "rows": rows, "log": r["log"]})
        specs = [(name, sfs, sub) for name, sfs, sub in rec.records if not name.startswith("alreadyOptimized_")]
    drive.clean_scratch()
    return {"blocks": out, "specs": specs}


def handle(case):
    drive.setup()
    params = c01.params_for(case["opts"])
    res = []
    for bid, block in case["seq"]:
        r = result_of([tuple(x) for x in block], params)
        txt = json.dumps(r, sort_keys=True, default=str)
        res.append((bid, hashlib.sha256(txt.encode()).hexdigest(), txt if case.get("keep_text") else None))
    return {"results": res, "viols": [], "counts": {"blocks_processed": len(res)}}


def run():
    from vlib import findings, pool
    from monitors import common
    import shutil
    import tempfile
    r = findings.Run("C12")
    gen.HOSTILE_DAG = False     # the known exponential shape (C10) would only make whole sequences exceed their budget
    quick = common.tier() == "quick"
    rnd = random.Random(common.seed() + 12)
    n_groups = 24 if quick else 200
    optsets = [["-greedy"], ["-greedy", "-partition"], ["-greedy", "-size"], ["-greedy", "-storage"], ["-greedy", "-length"]]
    cases = []
    groups = []
    for g in range(n_groups):
        opts = optsets[g % len(optsets)]
        size = rnd.choice([2, 3, 5, 8, 12, 20, 50]) if not quick else rnd.choice([2, 3, 5, 8, 12])
        blocks = []
        for i in range(size):
            kind = rnd.choice(["rule", "rule", "mem", "grammar", "split", "hostile", "zero", "long", "deep", "dupterms", "dupterms",
                               "stmt", "wrap", "tradeoff", "identity", "symm", "overlap"])
            if kind == "stmt":
                st, _n = gen.gen_stmt_block(rnd)
                b = [p for s_ in st for p in s_]
            else:
                b, _ = gen.gen_block(rnd, kind)
            blocks.append(("g%d_b%d" % (g, i), b, kind))
        # blocks that appear twice in the history: state keyed on the content of a block (a folded constant expression, a
        # term, an identifier) only leaks into a later block with the same content.  Always one duplicate, preferably of
        # a block in which rules or constant folding fire, often a second one.
        folding = [x for x in blocks if x[2] in ("rule", "zero", "wrap", "tradeoff", "identity", "dupterms")]
        blocks.append(rnd.choice(folding or blocks))
        if size >= 3 and rnd.random() < 0.5:
            blocks.append(blocks[0])
        seqs = {"forward": list(blocks), "reverse": list(reversed(blocks))}
        for k in range(2 if quick else 3):
            s = list(blocks)
            rnd.shuffle(s)
            seqs["shuffle%d" % k] = s
        # empty history for a sample of the blocks
        for (bid, b, kind) in rnd.sample(blocks, min(len(blocks), 2 if quick else 3)):
            seqs["alone:" + bid] = [(bid, b, kind)]
        groups.append((g, opts, blocks, list(seqs)))
        for name, s in seqs.items():
            cases.append({"group": g, "order": name, "opts": opts, "_group": " ".join(opts) + "#%d#%s" % (g, name),
                          "seq": [(bid, b) for bid, b, _ in s], "keep_text": True, "_cpu": 30.0 + 10.0 * len(s),
                          "kinds": [k for _, _, k in s]})
    results = {}
    fails = []

    def on(idx, case, res):
        if "_fail" in res or "_handler_exception" in res:
            fails.append((case["group"], case["order"], res.get("_fail") or res.get("_handler_exception")))
            return
        results[(case["group"], case["order"])] = res["results"]
    scratch = tempfile.mkdtemp(prefix="gasol_verif_")
    try:
        # every case has its own _group, so every sequence is processed by a fresh worker process
        st = pool.run_cases("monitors.c12:handle", cases, cpu_budget=120.0, env_extra={"GASOL_VERIF_SCRATCH": scratch},
                            on_result=on)
    finally:
        shutil.rmtree(scratch, ignore_errors=True)
    pairs = 0
    hist_lens = set()
    blocks_compared = 0
    kinds_seen = set()
    for g, opts, blocks, orders in groups:
        per_block = {}
        for o in orders:
            res = results.get((g, o))
            if res is None:
                continue
            for pos, (bid, digest, txt) in enumerate(res):
                per_block.setdefault(bid, []).append((o, pos, digest, txt))
                hist_lens.add(pos)
        for bid, obs in per_block.items():
            blocks_compared += 1
            base = obs[0]
            for other in obs[1:]:
                pairs += 1
                if other[2] != base[2]:
                    a, b = json.loads(base[3]), json.loads(other[3])
                    what = "emitted block" if a["blocks"] and b["blocks"] and [x["emitted"] for x in a["blocks"]] != [x["emitted"] for x in b["blocks"]] \
                        else "specification" if a["specs"] != b["specs"] else "statistics row" if [x["rows"] for x in a["blocks"]] != [x["rows"] for x in b["blocks"]] else "other"
                    kind = next((k for (i, _, k) in blocks if i == bid), "?")
                    r.witness("%s of a block depends on the blocks processed before it" % what,
                              {"block": evm.to_plain_string([tuple(x) for x in next(b_ for (i, b_, _) in blocks if i == bid)])[:400],
                               "opts": opts, "history_a": base[0], "position_a": base[1], "history_b": other[0],
                               "position_b": other[1], "kind": kind})
                    break
        for _, _, k in blocks:
            kinds_seen.add(k)
    for f in fails[:5]:
        r.inconclusive.append("sequence not completed: group %s order %s (%s)" % f)
    if pairs == 0:
        r.inconclusive.append("!no pair of histories compared")
    r.add_sample({"group": 0, "orders": groups[0][3], "n_blocks": len(groups[0][2]), "opts": groups[0][1]})
    r.coverage.update({"groups": len(groups), "sequences_processed": len(results), "sequences_failed": len(fails),
                       "blocks_compared": blocks_compared, "history_pairs_compared": pairs,
                       "history_positions_seen": sorted(hist_lens)[-1] + 1 if hist_lens else 0,
                       "predecessor_kinds": sorted(kinds_seen), "pool": st})
    r.assumptions = ["one option set per process (as the real tool); the scratch directory name and timings are excluded",
                     "results compared: specification dictionaries, sub-block lists, emitted block, statistics rows, log ids"]
    return r.finish(evaluations=sum(len(v) for v in results.values()), distinct_nontrivial=pairs,
                    rule="groups of generated blocks processed by fresh processes in forward/reverse/shuffled orders and alone; "
                         "non-trivial = pair (block under history A, same block under history B) compared")
