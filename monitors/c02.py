"""C02 — the specification denotes the block under every admissible schedule.

For every specification the front-end emits: every linearization of its state-touching
operations (declared dependences + producer-before-consumer; all of them if <= 200, sampled
otherwise) is evaluated on aliasing-heavy concrete states and compared with the execution of
the block segment.  Plus a hook monitor on are_dependent: a False answer for two accesses with
constant arguments must agree with our own byte-range overlap computation.
"""
import random

from vlib import evm, gen, drive, sfs_eval
from monitors import c01, c03

LOG = []
COUNTS = {}
_installed = False


def _count(k, n=1):
    COUNTS[k] = COUNTS.get(k, 0) + n


def _range(t):
    """(kind, lo, hi) byte range / key of an access tuple, or None when not constant"""
    ins = t[0][-1]
    a = sfs_eval.as_int(t[0][0])
    if a is None:
        return None
    if "keccak" in ins or "sha3" in ins:
        n = sfs_eval.as_int(t[0][1])
        if n is None:
            return None
        return ("m", a, a + n)
    if "mstore8" in ins:
        return ("m", a, a + 1)
    if "mstore" in ins or "mload" in ins:
        return ("m", a, a + 32)
    if "sstore" in ins or "sload" in ins:
        return ("s", a, a + 1)
    return None


def _opname(ins):
    for n in ("mstore8", "mstore", "sstore"):
        if ins.startswith(n):
            return n
    return ins.rstrip("0123456789")


def install():
    global _installed
    if _installed:
        return
    R = drive.setup()
    g = R["gopt"]
    orig = g.are_dependent

    def are_dependent(t1, t2, idx1, idx2, location="memory"):
        r = orig(t1, t2, idx1, idx2, location)
        _count("are_dependent_calls")
        try:
            if r is False:
                _count("are_dependent_false")
                r1, r2 = _range(t1), _range(t2)
                if r1 and r2 and r1[0] == r2[0]:
                    _count("are_dependent_false_on_constants")
                    writes = any(("store" in t[0][-1]) for t in (t1, t2))
                    if writes and r1[1] < r2[2] and r2[1] < r1[2]:
                        LOG.append({"fingerprint": "are_dependent false on overlapping %s/%s" % tuple(sorted(
                            (_opname(t1[0][-1]), _opname(t2[0][-1])))),
                            "witness": {"t1": str(t1), "t2": str(t2), "location": location}})
        except Exception as e:
            _count("monitor_internal_error")
        return r
    g.are_dependent = are_dependent
    _installed = True


def handle(case):
    install()
    LOG.clear()
    COUNTS.clear()
    block = [tuple(x) for x in case["block"]]
    opts = case["opts"]
    rnd = random.Random(case.get("sseed", 0))
    specs, exc = c03.front_end(block, opts)
    res = {"specs": len(specs), "exc": exc, "rules": []}
    viols = []
    stats = {}
    for key, S, seg in specs:
        nops = len(sfs_eval.state_ops(S))
        if nops >= 2:
            _count("specs_with_2plus_state_ops")
        try:
            bad = c03.spec_vs_segment(S, seg, rnd, case.get("k", 16), mode="any", max_orders=case.get("max_orders", 200),
                                      stats=stats)
        except sfs_eval.SpecError as e:
            bad = ("spec-error " + str(e)[:60], None, None)
        if bad and bad[0].startswith("spec-error cyclic"):
            _count("specs_with_cyclic_constraints")
            bad = None
        if bad:
            # classify: does some schedule reproduce the block on this state (ordering defect) or none (term defect)?
            ops = sorted(set(i["disasm"] for i in sfs_eval.state_ops(S)))
            viols.append({"fingerprint": "schedule rules=%s stateops=%s obs=%s" % (
                ",".join(sorted(set(c01.norm_rule(r) for r in S.get("rules", [])))) or "-", ",".join(ops),
                bad[0].split(" ")[0] if not bad[0].startswith("spec-error") else bad[0]),
                "witness": {"segment": evm.to_plain_string(seg), "state": bad[1], "order": bad[2], "reason": bad[0],
                            "memory_dependences": S.get("memory_dependences"),
                            "storage_dependences": S.get("storage_dependences"), "block": case["block"]}})
    for k, v in stats.items():
        _count(k, v)
    res["viols"] = viols + list(LOG)
    res["counts"] = dict(COUNTS)
    if case.get("want_sample") and specs:
        S = specs[0][1]
        res["sample"] = {"segment": evm.to_plain_string(specs[0][2]), "memory_dependences": S.get("memory_dependences"),
                         "storage_dependences": S.get("storage_dependences"),
                         "state_ops": [i["id"] for i in sfs_eval.state_ops(S)]}
    return res


def run():
    from vlib import findings
    from monitors import common
    r = findings.Run("C02")
    quick = common.tier() == "quick"
    n = 3000 if quick else 30000
    opts = [["-greedy"], ["-greedy", "-partition"], ["-greedy", "-no-simplification"], ["-greedy", "-size"],
            ["-greedy", "-storage"], ["-greedy", "-no-simplification", "-partition"]]
    cases = common.gen_cases(n, common.seed(), opts, kinds=["mem", "mem", "mem", "overlap", "overlap", "grammar", "split"],
                             k_states=16 if quick else 48)
    col = common.Collector(r)
    st = common.run_pool("monitors.c02:handle", cases, col, cpu_budget=30.0)
    c = col.counts
    for need in ("orders", "states", "are_dependent_calls", "specs_with_2plus_state_ops"):
        if c.get(need, 0) == 0:
            r.inconclusive.append("!never reached: " + need)
    r.coverage.update({"specs_evaluated": c.get("specs", 0), "specs_with_2plus_state_ops": c.get("specs_with_2plus_state_ops", 0),
                       "linearizations_evaluated": c.get("orders", 0), "specs_exhaustively_enumerated": c.get("exhaustive", 0),
                       "states_executed": c.get("states", 0), "are_dependent_calls": c.get("are_dependent_calls", 0),
                       "are_dependent_false": c.get("are_dependent_false", 0),
                       "are_dependent_false_on_constant_pairs_checked": c.get("are_dependent_false_on_constants", 0),
                       "specs_with_cyclic_constraints_left_to_C16": c.get("specs_with_cyclic_constraints", 0),
                       "blocks_per_option_set": dict(col.by_group), "blocks_per_generator": dict(col.by_kind),
                       "budget_exceeded_cases": {k: v for k, v in col.stat.items() if k.startswith("budget_")},
                       "pool": st})
    r.assumptions = ["vlib/sfs_eval.py evaluator and linearization enumerator; vlib/evm.py",
                     "with -storage the specification has no memory operations: only the stack part is checked",
                     "states sampled with aliasing/overlap classes (offsets 1..31 apart, byte-in-word, keccak ranges)"]
    return r.finish(evaluations=col.stat["ok"], distinct_nontrivial=c.get("specs_with_2plus_state_ops", 0),
                    rule="memory/storage-heavy generated blocks; every emitted specification evaluated under all (<=200) or "
                         "sampled linearizations x K states; non-trivial = specification with at least two state-touching "
                         "operations (so that more than one schedule or an ordering constraint exists)")
