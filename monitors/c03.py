"""C03 — simplification rules and constant folding are identities on 256-bit words.

Layer 1: hook monitors on the repository's own rule / folding functions (installed by
rebinding module attributes inside the worker; every call the real pipeline makes is checked).
Layer 2: the specification the front-end produces denotes the block (program-order schedule).
Layer 3: size gating of folds in size mode.
"""
import copy
import itertools
import random

from vlib import evm, gen, drive, opsem, sfs_eval
from vlib.opsem import MASK, M, BOUNDARY

HOOK_LOG = []          # violations observed by hooks during the current case
COUNTS = {}            # hook call counters (per case, reset by handle)
FIRED = {}             # rule tag -> times checked
_installed = False
N_VAL = 48

FUNCT2OP = {"+": "ADD", "-": "SUB", "*": "MUL", "/": "DIV", "^": "EXP", "and": "AND", "or": "OR",
            "xor": "XOR", "%": "MOD", "eq": "EQ", "gt": "GT", "lt": "LT", "shr": "SHR", "shl": "SHL",
            "sar": "SAR"}


class AbortCase(Exception):
    """raised by a hook to stop a call that would not terminate (recorded as a violation first)"""


def _count(k, n=1):
    COUNTS[k] = COUNTS.get(k, 0) + n


def _log(fp, **w):
    if len(HOOK_LOG) < 50:
        HOOK_LOG.append({"fingerprint": fp, "witness": w})


def nbytes(v):
    return max(1, (v.bit_length() + 7) // 8)


# ------------------------------------------------------------------ term evaluation over user_def lists
def _valuations(symbols, rnd, n):
    symbols = sorted(symbols)
    out = []
    pool = BOUNDARY
    if len(symbols) == 0:
        return [{}]
    if len(symbols) == 1:
        for b in pool:
            out.append({symbols[0]: b})
    else:
        for b in pool[:8]:
            out.append({s: b for s in symbols})
        for _ in range(len(pool)):
            out.append({s: rnd.choice(pool) for s in symbols})
    while len(out) < n:
        out.append({s: rnd.choice([rnd.getrandbits(256), rnd.getrandbits(8), rnd.choice(pool),
                                   (1 << rnd.randrange(256))]) for s in symbols})
    return out[:max(n, len(pool))]


class TermEval:
    """Evaluates variables over a flat list of instruction dicts (user_def_instrs).  Opaque
    instructions are consistent uninterpreted functions of their evaluated arguments; the
    environment facts rules may rely on come from the interpreter's environment model."""

    def __init__(self, instrs, valuation, seed):
        self.dm = {}
        for ins in instrs:
            for o in ins.get("outpt_sk", []):
                self.dm[o] = ins
        self.val = dict(valuation)
        self.seed = seed
        self.m = evm.Machine(evm.State([], seed=seed))
        self.depth = 0

    def free_symbols(self, roots):
        seen, out = set(), set()

        def rec(x):
            if sfs_eval.as_int(x) is not None and x not in self.dm:
                return
            if x in seen:
                return
            seen.add(x)
            ins = self.dm.get(x)
            if ins is None:
                out.add(x)
                return
            for a in ins.get("inpt_sk", []):
                rec(a)
        for r in roots:
            rec(r)
        return out

    def ev(self, x):
        k = sfs_eval.as_int(x)
        if k is not None and x not in self.dm:
            return k
        if x in self.val:
            return self.val[x]
        ins = self.dm.get(x)
        if ins is None:
            raise KeyError(x)
        self.depth += 1
        if self.depth > 400:
            raise RecursionError("cyclic definition")
        args = [self.ev(a) for a in ins.get("inpt_sk", [])]
        self.depth -= 1
        d = ins["disasm"]
        if d in opsem.OPS and len(args) == opsem.OPS[d][0] and all(0 <= a <= MASK for a in args):
            r = opsem.apply(d, args)
        elif d == "PUSH":
            r = int(ins["value"][0])
        elif d == "PUSH0":
            r = 0
        elif d in evm.ENV0 or d in evm.ENV1:
            r = self.m.env(d, *[a & MASK for a in args])
        elif d in ("MLOAD", "SLOAD", "KECCAK256", "SHA3"):
            # state dependent: identity of the load matters (its output variable is stable under rules)
            r = evm.prf_word("ld", self.seed, d, x, *args)
        else:
            r = evm.prf_word("uf", self.seed, d, str(ins.get("value")), *args)
        self.val[x] = r
        return r


def _roots(instrs, tstack):
    roots = [("t%d" % i, v) for i, v in enumerate(tstack)]
    for ins in instrs:
        if ins.get("storage") or ins.get("outpt_sk") == []:
            for j, a in enumerate(ins.get("inpt_sk", [])):
                roots.append(("%s.%d" % (ins.get("id"), j), a))
    return roots


_TIMEOUT = object()
_WATCHDOG = object()


def _call_in_child(fn, args, cpu_seconds, wall_watchdog=180.0):
    """run fn(*args) in a forked child under a CPU-time limit (RLIMIT_CPU, so that machine load
    does not change the verdict) and a memory limit; returns its int result, _TIMEOUT when the CPU
    limit was hit, _WATCHDOG when the generous wall-clock watchdog fired (inconclusive), or raises
    RuntimeError(child exception name)"""
    import os
    import select
    import resource
    import signal
    r, w = os.pipe()
    pid = os.fork()
    if pid == 0:
        try:
            os.close(r)
            resource.setrlimit(resource.RLIMIT_AS, (3 << 30, 3 << 30))
            c = int(cpu_seconds)
            resource.setrlimit(resource.RLIMIT_CPU, (c, c + 1))
            try:
                out = "ok:" + repr(fn(*args))
            except BaseException as e:  # noqa
                out = "exc:" + type(e).__name__
            os.write(w, out.encode()[:1 << 16])
        finally:
            os._exit(0)
    os.close(w)
    status = 0
    watchdog = False
    data = b""
    try:
        ready, _, _ = select.select([r], [], [], wall_watchdog)
        if not ready:
            os.kill(pid, signal.SIGKILL)
            watchdog = True
        else:
            while True:
                chunk = os.read(r, 1 << 16)
                if not chunk:
                    break
                data += chunk
    finally:
        os.close(r)
        try:
            _, status = os.waitpid(pid, 0)
        except Exception:
            pass
    if watchdog:
        return _WATCHDOG
    txt = data.decode()
    if txt.startswith("ok:"):
        v = txt[3:]
        return None if v == "None" else int(v)
    if txt.startswith("exc:"):
        raise {"ZeroDivisionError": ZeroDivisionError, "MemoryError": MemoryError,
               "OverflowError": OverflowError}.get(txt[4:], RuntimeError)(txt[4:])
    if os.WIFSIGNALED(status) and os.WTERMSIG(status) in (signal.SIGXCPU, signal.SIGKILL):
        return _TIMEOUT
    return _WATCHDOG


# ------------------------------------------------------------------ hooks
def install():
    global _installed
    if _installed:
        return
    R = drive.setup()
    g = R["gopt"]
    rnd = random.Random(12345)

    orig_eval = g.evaluate_expression

    def evaluate_expression(funct, val0, val1):
        _count("evaluate_expression")
        op = FUNCT2OP.get(funct)
        inrange = isinstance(val0, int) and isinstance(val1, int) and 0 <= val0 <= MASK and 0 <= val1 <= MASK
        # operands on which a naive big-integer implementation does not terminate (2**(2**200)):
        # such calls are made in a forked child under a time and memory limit so that the
        # verdict does not depend on how the repository implements the operator
        risky = False
        if isinstance(val0, int) and isinstance(val1, int):
            if funct == "^" and val0 > 1 and val1 * val0.bit_length() > 5_000_000:
                risky = True
            elif funct in ("shr", "shl", "sar") and val0 > 5_000_000:
                risky = True
        try:
            if risky:
                _count("evaluate_expression_forked")
                r = _call_in_child(orig_eval, (funct, val0, val1), 3)
                if r is _WATCHDOG:
                    _count("evaluate_expression_fork_watchdog")
                    raise AbortCase("forked fold: wall-clock watchdog (inconclusive)")
                if r is _TIMEOUT:
                    _log("fold %s nonterminating" % funct, funct=funct, val0=hex(val0), val1=hex(val1))
                    raise AbortCase("fold does not terminate")
            else:
                r = orig_eval(funct, val0, val1)
        except AbortCase:
            raise
        except Exception as e:
            _log("fold %s raises %s" % (funct, type(e).__name__), funct=funct, val0=str(val0), val1=str(val1))
            raise
        if op is None:
            _log("fold unknown-functor %s" % funct, funct=funct)
            return r
        if not inrange:
            _count("evaluate_expression_operand_out_of_range")
            return r
        want = opsem.apply(op, [val0, val1])
        if r != want or isinstance(r, bool) or not isinstance(r, int):
            kind = "wrong"
            if isinstance(r, int) and (r < 0 or r > MASK):
                kind = "out-of-range"
            _log("fold %s %s" % (funct, kind), funct=funct, val0=hex(val0), val1=hex(val1), got=str(r), want=hex(want))
        return r
    g.evaluate_expression = evaluate_expression

    orig_ter = g.evaluate_expression_ter

    def evaluate_expression_ter(funct, val0, val1, val2):
        _count("evaluate_expression_ter")
        try:
            r = orig_ter(funct, val0, val1, val2)
        except Exception as e:
            _log("fold3 %s raises %s" % (funct, type(e).__name__), funct=funct, vals=[str(val0), str(val1), str(val2)])
            raise
        op = {"addmod": "ADDMOD", "mulmod": "MULMOD", "+": "ADDMOD", "*": "MULMOD"}.get(funct)
        if op and all(isinstance(v, int) and 0 <= v <= MASK for v in (val0, val1, val2)):
            want = opsem.apply(op, [val0, val1, val2])
            if r != want:
                _log("fold3 %s %s" % (funct, "none" if r is None else "wrong"), funct=funct,
                     vals=[hex(val0), hex(val1), hex(val2)], got=str(r), want=hex(want))
        return r
    g.evaluate_expression_ter = evaluate_expression_ter

    orig_cb = g.compute_binary

    def compute_binary(expression, level):
        r = orig_cb(expression, level)
        try:
            if g.size_flag and r[0] is True:
                v0, v1 = int(expression[0]), int(expression[1])
                val = int(r[1])
                _count("size_gate_fold")
                if val >= 0 and 1 + nbytes(val) > (1 + nbytes(v0)) + (1 + nbytes(v1)) + 1:
                    _log("size-gate fold %s enlarges code" % expression[2], v0=hex(v0), v1=hex(v1), val=hex(val))
        except Exception:
            pass
        return r
    g.compute_binary = compute_binary

    orig_unary = g.update_unary_func

    def update_unary_func(func, var, val, evaluate):
        r = orig_unary(func, var, val, evaluate)
        try:
            if func in ("not", "iszero") and evaluate and g.is_integer(val) != -1:
                got = g.s_dict.get(var)
                if isinstance(got, str) and got.isdigit():
                    got = int(got)
                if isinstance(got, int) and not isinstance(got, bool):
                    _count("update_unary_func_fold")
                    v = int(val)
                    if 0 <= v <= MASK:
                        want = opsem.apply("NOT" if func == "not" else "ISZERO", [v])
                        if got != want:
                            _log("fold1 %s wrong" % func, val=hex(v), got=str(got), want=hex(want))
        except Exception:
            pass
        return r
    g.update_unary_func = update_unary_func

    orig_at = g.apply_transform

    def apply_transform(instr):
        d = instr.get("disasm")
        inp = list(instr.get("inpt_sk", []))
        r = orig_at(instr)
        _count("apply_transform")
        if r is None or (isinstance(r, int) and r == -1 and not isinstance(r, bool)):
            return r
        tag = getattr(g, "rule", "") or "?"
        FIRED[tag] = FIRED.get(tag, 0) + 1
        _count("apply_transform_fired")
        if d not in opsem.OPS:
            return r
        syms = set(x for x in inp if sfs_eval.as_int(x) is None)
        if isinstance(r, (list, tuple)):
            _log("rule %s returns a %s" % (tag, type(r).__name__), disasm=d, inpt=[str(x) for x in inp], got=str(r))
            return r
        if sfs_eval.as_int(r) is None:
            if r not in syms:
                _log("rule %s returns foreign term" % tag, disasm=d, inpt=[str(x) for x in inp], got=str(r))
                return r
        for va in _valuations(syms, rnd, N_VAL):
            args = [va[x] if x in va else sfs_eval.as_int(x) for x in inp]
            if not all(0 <= a <= MASK for a in args):
                break
            want = opsem.apply(d, args)
            got = va[r] if r in va else sfs_eval.as_int(r)
            if got != want:
                _log("rule %s wrong" % tag, disasm=d, inpt=[str(x) for x in inp], result=str(r),
                     valuation={k: hex(v) for k, v in va.items()}, got=hex(got) if got >= 0 else str(got), want=hex(want))
                break
        if g.size_flag and sfs_eval.as_int(r) is not None:
            consts = [sfs_eval.as_int(x) for x in inp if sfs_eval.as_int(x) is not None]
            _count("size_gate_rule")
            # replaced: the operation byte plus the pushes of its constant operands (symbolic operands
            # cost at least one byte each to fetch); replacement: one push
            old = 1 + sum(1 + nbytes(c) for c in consts) + (len(inp) - len(consts))
            if 1 + nbytes(sfs_eval.as_int(r)) > old:
                _log("size-gate rule %s enlarges code" % tag, disasm=d, inpt=[str(x) for x in inp], result=str(r))
        return r
    g.apply_transform = apply_transform

    orig_ac = g.apply_cond_transformation

    def apply_cond_transformation(instr, user_def_instrs, tstack):
        before_instrs = copy.deepcopy(user_def_instrs)
        before_ts = list(tstack)
        r = orig_ac(instr, user_def_instrs, tstack)
        _count("apply_cond_transformation")
        try:
            ok, dels = r
        except Exception:
            _log("cond-rule returns %r" % (r,), disasm=instr.get("disasm"))
            return r
        if not ok:
            return r
        tag = getattr(g, "rule", "") or "?"
        FIRED[tag] = FIRED.get(tag, 0) + 1
        _count("apply_cond_fired")
        try:
            after_instrs = [i for i in user_def_instrs if not any(i is d or i == d for d in dels)]
            after_ts = list(tstack)
            rb = _roots(before_instrs, before_ts)
            ra = dict(_roots(after_instrs, after_ts))
            te0 = TermEval(before_instrs, {}, 0)
            syms = te0.free_symbols([v for _, v in rb])
            te1 = TermEval(after_instrs, {}, 0)
            syms |= te1.free_symbols(list(ra.values()))
            bad = None
            for n, va in enumerate(_valuations(syms, rnd, N_VAL)):
                tb = TermEval(before_instrs, va, n)
                ta = TermEval(after_instrs, va, n)
                for name, v in rb:
                    if name not in ra:
                        bad = ("root %s disappeared" % name, va)
                        break
                    x, y = tb.ev(v), ta.ev(ra[name])
                    if x != y:
                        bad = ("root %s: %s -> %s" % (name, hex(x) if isinstance(x, int) and x >= 0 else x,
                                                      hex(y) if isinstance(y, int) and y >= 0 else y), va)
                        break
                if bad:
                    break
            if bad:
                _log("cond-rule %s wrong" % tag, detail=bad[0], valuation={k: hex(v) for k, v in bad[1].items()},
                     instr={k: str(v) for k, v in instr.items() if k in ("id", "disasm", "inpt_sk", "outpt_sk")},
                     before=[{k: str(i.get(k)) for k in ("id", "inpt_sk", "outpt_sk")} for i in before_instrs][:12],
                     tstack=[str(x) for x in before_ts])
        except RecursionError:
            _log("cond-rule %s creates cyclic definition" % tag, disasm=instr.get("disasm"))
        except KeyError as e:
            _log("cond-rule %s leaves undefined variable" % tag, var=str(e))
        except TypeError as e:
            if "unhashable" in str(e):
                _log("cond-rule %s leaves a list-valued operand" % tag,
                     instr={k: str(v) for k, v in instr.items() if k in ("id", "disasm", "inpt_sk", "outpt_sk")},
                     tstack=[str(x) for x in tstack][:8])
            else:
                _count("cond_monitor_internal_error")
                COUNTS["cond_monitor_internal_error_msg"] = "%s: %s" % (type(e).__name__, e)
        except Exception as e:
            _count("cond_monitor_internal_error")
            COUNTS["cond_monitor_internal_error_msg"] = "%s: %s" % (type(e).__name__, e)
        return r
    g.apply_cond_transformation = apply_cond_transformation
    _installed = True


# ------------------------------------------------------------------ layer 2: spec vs block
def segments_of(subblocks):
    """our own removal of the duplicated split instruction (see C14)"""
    segs = [list(s) for s in subblocks]
    for i in range(len(segs) - 1):
        segs[i].pop()
        segs[i + 1].pop(0)
    return segs


def _eval(S, order, st):
    try:
        return sfs_eval.eval_spec(S, order, st), None
    except evm.OOG:
        return None, "spec-oog"
    except sfs_eval.SpecError as e:
        return None, "spec-error " + str(e).split(":")[0][:60]


def _differs(S, res, o, st):
    fs, mem, sto, tr = res
    # the specification describes the stack it names: the words below src_ws are untouched
    below = st.stack[len(S["src_ws"]):]
    if fs + below != o.stack:
        return "stack"
    if mem != o.mem:
        return "memory"
    if sto != o.sto:
        return "storage"
    return None


def spec_vs_segment(S, seg_pairs, rnd, k, mode="all", max_orders=40, stats=None):
    """None, or (reason, state, order) — spec S must denote the instruction segment seg_pairs.
    mode 'all' (C03): a state is a witness only if *no* admissible schedule reproduces the block
    (so ordering defects, which are C02's business, are not reported here);
    mode 'any' (C02): a state is a witness if *some* admissible schedule differs."""
    need, _ = evm.stack_effect(seg_pairs)
    depth = max(need, len(S["src_ws"]))
    try:
        orders, exhaustive = sfs_eval.linearizations(S, rnd, limit=max_orders, n_random=max_orders)
    except sfs_eval.SpecError as e:
        return ("spec-error " + str(e)[:60], None, None)
    if stats is not None:
        stats["orders"] = stats.get("orders", 0) + len(orders)
        stats["exhaustive"] = stats.get("exhaustive", 0) + int(bool(exhaustive))
        stats["specs"] = stats.get("specs", 0) + 1
    for st in gen.sample_states(rnd, seg_pairs, k, depth):
        o = evm.observe(seg_pairs, st)
        if o.halt != "fall":
            continue
        if stats is not None:
            stats["states"] = stats.get("states", 0) + 1
        first_bad = None
        good = False
        for order in orders:
            res, err = _eval(S, order, st)
            why = err if err else _differs(S, res, o, st)
            if why is None:
                good = True
                if mode == "all":
                    break
            else:
                if first_bad is None:
                    first_bad = (why, st.to_json(), order)
                if mode == "any":
                    break
        if mode == "all" and not good and first_bad:
            return first_bad
        if mode == "any" and first_bad:
            return first_bad
    return None


from monitors import c01  # noqa: E402  (params cache / pipeline helpers)


def front_end(block, opts):
    """run only the specification generation on the block; returns list of (S_key, S, segment pairs)"""
    drive.setup()
    params = c01.params_for(opts)
    ga = drive.R["gasol_asm"]
    out = []
    exc = None
    blocks = drive.build_blocks(gen.to_items(block))
    for b in blocks:
        if b.instructions_to_optimize_plain() == []:
            continue
        try:
            sfs, subblocks = ga.compute_original_sfs_with_simplifications(b, params)
        except AbortCase:
            exc = "abort"
            continue
        except Exception as e:
            exc = "%s" % (type(e).__name__,)
            continue
        segs = segments_of(subblocks)
        contract = copy.deepcopy(sfs["syrup_contract"])
        for i, seg in enumerate(segs):
            key = "%s_%d" % (b.block_name, i)
            if key in contract:
                out.append((key, contract[key], evm.from_plain_tokens(seg)))
    drive.clean_scratch()
    return out, exc


def handle(case):
    install()
    HOOK_LOG.clear()
    COUNTS.clear()
    FIRED.clear()
    block = [tuple(x) for x in case["block"]]
    opts = case["opts"]
    rnd = random.Random(case.get("sseed", 0))
    specs, exc = front_end(block, opts)
    res = {"specs": len(specs), "exc": exc, "rules": []}
    viols = []
    for key, S, seg in specs:
        res["rules"].extend(c01.norm_rule(r) for r in S.get("rules", []))
        if case.get("layer2", True):
            try:
                bad = spec_vs_segment(S, seg, rnd, case.get("k", 16), mode="all", stats=COUNTS)
            except sfs_eval.SpecError as e:
                bad = ("spec-error " + str(e)[:60], None, None)
            if bad and bad[0].startswith("spec-error cyclic"):
                # no admissible schedule at all: the statement is vacuous here; C16 owns this defect
                _count("specs_with_cyclic_constraints")
                bad = None
            if bad:
                viols.append({"fingerprint": "spec rules=%s ops=%s obs=%s" % (
                    ",".join(sorted(set(c01.norm_rule(r) for r in S.get("rules", [])))) or "-",
                    ",".join(sorted(set(n for n, _ in seg if not n.startswith(c01.CORE_SKIP)))) or "-",
                    bad[0].split(" ")[0] if not bad[0].startswith("spec-error") else bad[0]),
                    "witness": {"segment": evm.to_plain_string(seg), "state": bad[1], "opts": opts,
                                "reason": bad[0], "block": case["block"]}})
    res["viols"] = viols + list(HOOK_LOG)
    res["counts"] = dict(COUNTS)
    res["fired"] = dict(FIRED)
    if case.get("want_sample") and specs:
        res["sample"] = {"segment": evm.to_plain_string(specs[0][2]), "rules": specs[0][1].get("rules"),
                         "tgt_ws": specs[0][1].get("tgt_ws")}
    return res


# ------------------------------------------------------------------ parent side
def run():
    from vlib import findings
    from monitors import common
    r = findings.Run("C03")
    quick = common.tier() == "quick"
    n = 4000 if quick else 40000
    opts = [["-greedy"], ["-greedy", "-size"], ["-greedy", "-length"], ["-greedy", "-no-simplification"],
            ["-greedy", "-storage"], ["-greedy", "-partition"], ["-greedy", "-size", "-partition"],
            ["-greedy", "-push0"]]
    cases = common.gen_cases(n, common.seed(), opts, kinds=["rule", "rule", "rule", "grammar", "mem", "overlap"],
                             k_states=12 if quick else 32)

    class Col(common.Collector):
        nontrivial = set()

        def custom(self, idx, case, res):
            if res.get("fired") or res.get("rules"):
                self.nontrivial.add(evm.to_plain_string([tuple(x) for x in case["block"]]))
            if res.get("exc"):
                self.stat["front_end_exception"] += 1
    col = Col(r)
    st = common.run_pool("monitors.c03:handle", cases, col, cpu_budget=15.0)
    c = col.counts
    for hook in ("apply_transform", "apply_cond_transformation", "evaluate_expression", "update_unary_func_fold",
                 "apply_transform_fired", "apply_cond_fired", "states"):
        if c.get(hook, 0) == 0:
            r.inconclusive.append("!hook never reached: " + hook)
    r.coverage.update({
        "hook_calls": {k: v for k, v in c.items()},
        "rule_tags_checked": {k: v for k, v in sorted(col.fired.items()) if not k.startswith("spec:")},
        "spec_rule_tags_seen": {k[5:]: v for k, v in sorted(col.fired.items()) if k.startswith("spec:")},
        "blocks_per_option_set": dict(col.by_group), "blocks_per_generator": dict(col.by_kind),
        "specs_compared_with_block": c.get("specs", 0), "states_executed": c.get("states", 0),
        "linearizations_tried": c.get("orders", 0),
        "front_end_exceptions_contained": col.stat.get("front_end_exception", 0),
        "budget_exceeded_cases": {k: v for k, v in col.stat.items() if k.startswith("budget_")},
        "pool": st})
    r.assumptions = ["vlib/opsem.py operator table (cross-checked against z3 bit-vector semantics by ./check selftest)",
                     "vlib/evm.py reference interpreter; environment model of DESIGN 1.1",
                     "equivalence is decided on sampled valuations/states (boundary pool first)"]
    return r.finish(evaluations=col.stat["ok"], distinct_nontrivial=len(col.nontrivial),
                    rule="rule-directed + grammar blocks through the real front-end; non-trivial = distinct block on "
                         "which at least one rewrite rule, fold or memory simplification fired (hook or spec 'rules')")
