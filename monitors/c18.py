"""C18 — formula constructors preserve truth value; emitted text matches the formula.

Bounded-exhaustive: every formula tree of depth <= 2 (all of them) over boolean atoms, integer
terms, small integer constants and the literals true/false is built through the repository's
add_* constructors; the result is evaluated under every valuation by (1) our evaluator of the
constructed object, (2) our SMT-LIB reader applied to translate_formula's text, and compared with
the reference evaluation of the unsimplified tree.  Depth 3 and 4 are sampled.  Structural
equality (==) of constructed formulas must imply equal truth tables.
"""
import itertools
import os
import random

from vlib import smt

COUNTS = {}
_R = {}


def _count(k, n=1):
    COUNTS[k] = COUNTS.get(k, 0) + n


def setup():
    if _R:
        return _R
    import smt_encoding.constraints.connector_factory as cf
    from smt_encoding.constraints.connector import Connector
    from smt_encoding.constraints.function import Const, Sort, ExpressionReference
    from smt_encoding.solver.solver_from_executable import translate_formula
    _R.update(cf=cf, Connector=Connector, Const=Const, Sort=Sort, ExpressionReference=ExpressionReference,
              translate=translate_formula)
    return _R


BOOL_ATOMS = ["b0", "b1"]
INT_ATOMS = ["x0", "x1"]
INT_DOMAIN = [0, 1, 2]


def valuations():
    out = []
    for bs in itertools.product([False, True], repeat=len(BOOL_ATOMS)):
        for xs in itertools.product(INT_DOMAIN, repeat=len(INT_ATOMS)):
            v = dict(zip(BOOL_ATOMS, bs))
            v.update(zip(INT_ATOMS, xs))
            out.append(v)
    return out


VALS = valuations()

# ---------------------------------------------------------------- trees
L0_BOOL = [("b", "b0"), ("b", "b1"), ("B", True), ("B", False)]
L0_INT = [("x", "x0"), ("x", "x1"), ("I", 0), ("I", 1), ("I", 2)]


def sort_of(t):
    return "Int" if t[0] in ("x", "I") else "Bool"


def ref_eval(t, v):
    k = t[0]
    if k in ("b", "x"):
        return v[t[1]]
    if k in ("B", "I"):
        return t[1]
    if k == "and":
        return all(ref_eval(a, v) for a in t[1])
    if k == "or":
        return any(ref_eval(a, v) for a in t[1])
    if k == "not":
        return not ref_eval(t[1], v)
    if k == "=>":
        return (not ref_eval(t[1], v)) or ref_eval(t[2], v)
    if k == "=":
        a, b = ref_eval(t[1], v), ref_eval(t[2], v)
        return type(a) is type(b) and a == b          # Bool and Int are disjoint sorts
    if k == "<":
        return ref_eval(t[1], v) < ref_eval(t[2], v)
    if k == "<=":
        return ref_eval(t[1], v) <= ref_eval(t[2], v)
    if k == "distinct":
        vals = [ref_eval(a, v) for a in t[1]]
        return len(set(vals)) == len(vals)
    raise ValueError(k)


def construct(t, R, atoms):
    k = t[0]
    cf = R["cf"]
    if k in ("b", "x"):
        return atoms[t[1]]
    if k in ("B", "I"):
        return t[1]
    if k == "and":
        return cf.add_and(*[construct(a, R, atoms) for a in t[1]])
    if k == "or":
        return cf.add_or(*[construct(a, R, atoms) for a in t[1]])
    if k == "not":
        return cf.add_not(construct(t[1], R, atoms))
    if k == "=>":
        return cf.add_implies(construct(t[1], R, atoms), construct(t[2], R, atoms))
    if k == "=":
        return cf.add_eq(construct(t[1], R, atoms), construct(t[2], R, atoms))
    if k == "<":
        return cf.add_lt(construct(t[1], R, atoms), construct(t[2], R, atoms))
    if k == "<=":
        return cf.add_leq(construct(t[1], R, atoms), construct(t[2], R, atoms))
    if k == "distinct":
        return cf.add_distinct(*[construct(a, R, atoms) for a in t[1]])
    raise ValueError(k)


def obj_eval(o, v, R):
    """semantics of a constructed object (our own reading of connector names)"""
    if type(o) is bool or type(o) is int:
        return o
    if type(o) is R["ExpressionReference"]:
        return v[str(o.func)]
    name = o.connector_name
    args = [obj_eval(a, v, R) for a in o.arguments]
    if name == "and":
        return all(args)
    if name == "or":
        return any(args)
    if name == "not":
        return not args[0]
    if name == "=>":
        return (not args[0]) or args[1]
    if name == "=":
        return type(args[0]) is type(args[1]) and args[0] == args[1]
    if name == "<":
        return args[0] < args[1]
    if name == "<=":
        return args[0] <= args[1]
    if name == "distinct":
        return len(set(args)) == len(args)
    raise ValueError(name)


def level1():
    out = []
    B, I = L0_BOOL, L0_INT
    for a in B:
        out.append(("not", a))
    for n in (1, 2, 3):
        for args in itertools.product(B, repeat=n):
            out.append(("and", list(args)))
            out.append(("or", list(args)))
    for a, b in itertools.product(B, repeat=2):
        out.append(("=>", a, b))
        out.append(("=", a, b))
    for a, b in itertools.product(I, repeat=2):
        out.append(("=", a, b))
        out.append(("<", a, b))
        out.append(("<=", a, b))
        out.append(("distinct", [a, b]))
    for args in itertools.product(I, repeat=3):
        out.append(("distinct", list(args)))
    # literals of different sorts compared (the test-suite fixes add_eq(True, 3) == False)
    for b in (True, False):
        for i in (0, 1, 2, 3):
            out.append(("=", ("B", b), ("I", i)))
            out.append(("=", ("I", i), ("B", b)))
    return out


def level2_iter(L1):
    pool = L0_BOOL + L1
    for a in L1:
        yield ("not", a)
    for a in pool:
        for b in pool:
            if a in L0_BOOL and b in L0_BOOL:
                continue
            yield ("and", [a, b])
            yield ("or", [a, b])
            yield ("=>", a, b)
            yield ("=", a, b)


def random_tree(rnd, depth):
    if depth == 0 or rnd.random() < 0.15:
        return rnd.choice(L0_BOOL)
    k = rnd.choice(["and", "or", "not", "=>", "=", "=i", "<", "<=", "distinct", "and", "or"])
    if k in ("and", "or"):
        return (k, [random_tree(rnd, depth - 1) for _ in range(rnd.randrange(1, 4))])
    if k == "not":
        return ("not", random_tree(rnd, depth - 1))
    if k in ("=>", "="):
        return (k, random_tree(rnd, depth - 1), random_tree(rnd, depth - 1))
    if k == "=i":
        return ("=", rnd.choice(L0_INT), rnd.choice(L0_INT))
    if k in ("<", "<="):
        return (k, rnd.choice(L0_INT), rnd.choice(L0_INT))
    return ("distinct", [rnd.choice(L0_INT) for _ in range(rnd.randrange(2, 4))])


def mixed(t):
    """does the tree contain an equality between literals of different sorts?"""
    if t[0] == "=" and sort_of(t[1]) != sort_of(t[2]) and t[1][0] in ("B", "I") and t[2][0] in ("B", "I"):
        return True
    for c in t[1:]:
        if isinstance(c, tuple) and mixed(c):
            return True
        if isinstance(c, list) and any(mixed(x) for x in c):
            return True
    return False


def check_tree(t, R, atoms, viols, depth_label):
    _count("trees")
    _count("trees_" + depth_label)
    try:
        o = construct(t, R, atoms)
    except Exception as e:
        viols.append({"fingerprint": "constructor raises %s on %s" % (type(e).__name__, t[0]),
                      "witness": {"tree": repr(t)[:300], "err": str(e)[:200]}})
        return None
    simplified = type(o) is bool or (type(o) is not bool and getattr(o, "connector_name", None) != t[0])
    if simplified:
        _count("trees_simplified_on_construction")
    try:
        text = R["translate"](o)
        parsed = smt.parse_one(text)
    except Exception as e:
        viols.append({"fingerprint": "translate_formula output unreadable (%s)" % type(e).__name__,
                      "witness": {"tree": repr(t)[:300], "err": str(e)[:200]}})
        parsed = None
    table = []
    for v in VALS:
        want = ref_eval(t, v)
        got = obj_eval(o, v, R)
        table.append(got)
        _count("valuations")
        if got != want:
            cls = "mixed-sort literal equality" if mixed(t) else "top connective " + t[0]
            viols.append({"fingerprint": "constructed formula has another truth value (%s)" % cls,
                          "witness": {"tree": repr(t)[:400], "constructed": str(o)[:300], "valuation": v, "want": want,
                                      "got": got}})
            return None
        if parsed is not None:
            try:
                g2 = smt.evaluate(parsed, v)
            except smt.EvalError as e:
                if not mixed(t):
                    viols.append({"fingerprint": "rendered text is ill-formed (%s)" % str(e).split(" ")[0],
                                  "witness": {"tree": repr(t)[:300], "text": text[:300], "err": str(e)}})
                    return None
                g2 = want
            if g2 != want:
                viols.append({"fingerprint": "rendered text parses to another truth value",
                              "witness": {"tree": repr(t)[:300], "text": text[:300], "valuation": v, "want": want, "got": g2}})
                return None
    return o, tuple(table)


# ---------------------------------------------------------------- hooks on constructor calls of real encodings
HOOK_VIOLS = []


def _atoms_of(o, R, acc):
    if type(o) is R["ExpressionReference"]:
        acc[str(o)] = o.type
    elif type(o) is R["Connector"]:
        for a in o.arguments:
            _atoms_of(a, R, acc)


def _eval_general(o, val, R):
    if type(o) is bool or type(o) is int:
        return o
    if type(o) is R["ExpressionReference"]:
        return val[str(o)]
    name = o.connector_name
    args = [_eval_general(a, val, R) for a in o.arguments]
    if name == "and":
        return all(args)
    if name == "or":
        return any(args)
    if name == "not":
        return not args[0]
    if name == "=>":
        return (not args[0]) or args[1]
    if name == "=":
        return type(args[0]) is type(args[1]) and args[0] == args[1]
    if name == "<":
        return args[0] < args[1]
    if name == "<=":
        return args[0] <= args[1]
    if name == "distinct":
        return len(set(args)) == len(args)
    raise ValueError(name)


def install_constructor_hooks():
    """post-condition on add_and/or/not/implies/eq/lt/leq/distinct: the returned (simplified) formula has the
    truth value of the unsimplified connector over the same arguments, under random valuations of the atoms"""
    import sys
    R = setup()
    cf = R["cf"]
    rnd = random.Random(99)
    names = {"add_and": "and", "add_or": "or", "add_not": "not", "add_implies": "=>", "add_eq": "=", "add_lt": "<",
             "add_leq": "<=", "add_distinct": "distinct"}
    for fname, conn in names.items():
        orig = getattr(cf, fname)

        def make(orig, conn, fname):
            def hooked(*args):
                res = orig(*args)
                _count("constructor_calls_observed")
                try:
                    if len(args) == 0:
                        return res
                    raw = R["Connector"](conn, conn in ("and", "or", "not", "=", "distinct"), *args)
                    atoms = {}
                    _atoms_of(raw, R, atoms)
                    for _ in range(6):
                        val = {}
                        for a, sort in atoms.items():
                            val[a] = rnd.random() < 0.5 if sort == R["Sort"].boolean else rnd.randrange(0, 4)
                        if _eval_general(res, val, R) != _eval_general(raw, val, R):
                            if len(HOOK_VIOLS) < 10:
                                HOOK_VIOLS.append({"fingerprint": "constructor %s changes the truth value on a real encoding" % fname,
                                                   "witness": {"args": [str(a)[:120] for a in args][:6], "result": str(res)[:200]}})
                            break
                    _count("constructor_calls_checked")
                except Exception as e:
                    _count("constructor_hook_internal_error")
                return res
            return hooked
        h = make(orig, conn, fname)
        for mod in list(sys.modules.values()):
            d = getattr(mod, "__dict__", None)
            if not d or not str(getattr(mod, "__file__", "")).startswith(os.environ.get("GASOL_VERIF_REPO", "/repo")):
                continue
            for k, v in list(d.items()):
                if v is orig:
                    d[k] = h


def handle_encodings(case):
    """run the real encoder on small blocks with the constructor hooks installed"""
    from vlib import drive
    from monitors import c01, c03, c06
    drive.setup()
    params = c01.params_for(case["opts"])
    import smt_encoding.block_optimizer  # noqa: F401  (make sure encoder modules are loaded before rebinding)
    if not getattr(handle_encodings, "_installed", False):
        install_constructor_hooks()
        handle_encodings._installed = True
    rnd = random.Random(case["sseed"])
    from vlib import gen
    for _ in range(case["n"]):
        b, _k = gen.gen_block(rnd, "short")
        specs, exc = c03.front_end(b[:6], case["opts"])
        for key, S, seg in specs:
            if 0 < S["init_progr_len"] <= 6 and S["max_sk_sz"] <= 8:
                try:
                    c06.encode(key, S, params)
                    _count("encodings_generated")
                except Exception:
                    _count("encoder_exceptions")
    drive.clean_scratch()


def handle(case):
    COUNTS.clear()
    if case["kind"] == "encodings":
        del HOOK_VIOLS[:]
        handle_encodings(case)
        return {"viols": list(HOOK_VIOLS), "counts": dict(COUNTS)}
    R = setup()
    atoms = {n: R["Const"](n, R["Sort"].boolean) for n in BOOL_ATOMS}
    atoms.update({n: R["Const"](n, R["Sort"].integer) for n in INT_ATOMS})
    viols = []
    kind = case["kind"]
    L1 = level1()
    sample = None
    if kind == "level1":
        for t in L1:
            check_tree(t, R, atoms, viols, "depth1")
    elif kind == "level2":
        sh, n = case["shard"], case["nshards"]
        stride = case.get("stride", 1)
        for i, t in enumerate(level2_iter(L1)):
            if i % n != sh:
                continue
            if stride > 1 and (i // n) % stride != case.get("phase", 0):
                continue
            check_tree(t, R, atoms, viols, "depth2")
            if len(viols) > 30:
                break
    elif kind == "random":
        rnd = random.Random(case["sseed"])
        for _ in range(case["n"]):
            d = rnd.choice([3, 3, 4])
            t = random_tree(rnd, d)
            check_tree(t, R, atoms, viols, "depth%d_sampled" % d)
            if sample is None:
                sample = repr(t)[:300]
    elif kind == "pairs":
        rnd = random.Random(case["sseed"])
        objs = []
        for t in L1:
            r = check_tree(t, R, atoms, [], "pairs_prep")
            if r is not None:
                objs.append((t, r[0], r[1]))
        sh, n = case["shard"], case["nshards"]
        idx = 0
        for i, (t1, o1, tb1) in enumerate(objs):
            if i % n != sh:
                continue
            for t2, o2, tb2 in objs:
                _count("pairs")
                try:
                    eq = (o1 == o2)
                except Exception as e:
                    viols.append({"fingerprint": "__eq__ raises %s" % type(e).__name__,
                                  "witness": {"a": str(o1), "b": str(o2)}})
                    continue
                if eq is True:
                    _count("pairs_structurally_equal")
                    if tb1 != tb2:
                        viols.append({"fingerprint": "structurally equal formulas with different truth values",
                                      "witness": {"a": str(o1), "b": str(o2), "tree_a": repr(t1), "tree_b": repr(t2)}})
    res = {"viols": viols[:30], "counts": dict(COUNTS)}
    if case.get("want_sample"):
        res["sample"] = {"kind": kind, "tree": sample or repr(L1[len(L1) // 2])}
    return res


def run():
    from vlib import findings
    from monitors import common
    r = findings.Run("C18")
    quick = common.tier() == "quick"
    rnd = random.Random(common.seed())
    cases = [{"kind": "level1", "want_sample": True}]
    nsh = 64
    for s in range(nsh):
        c = {"kind": "level2", "shard": s, "nshards": nsh}
        if quick:
            c.update(stride=12, phase=rnd.randrange(12))
        cases.append(c)
    for i in range(16 if quick else 160):
        cases.append({"kind": "random", "sseed": rnd.getrandbits(30), "n": 600, "want_sample": i == 0})
    for s in range(16):
        cases.append({"kind": "pairs", "shard": s, "nshards": 16, "sseed": 1})
    for i, c in enumerate(cases):
        c["idx"] = i
        c["_group"] = "c18"
        c["opts"] = []
    enc_opts = [["-solver", "z3"], ["-solver", "z3", "-term-encoding", "int", "-empty"],
                ["-solver", "oms", "-memory-encoding", "l_vars", "-term-encoding", "stack_vars"],
                ["-solver", "z3", "-at-most", "-pushed-once", "-size"]]
    for i, o in enumerate(enc_opts):
        for k in range(2 if quick else 12):
            cases.append({"kind": "encodings", "opts": o, "_group": "enc " + " ".join(o), "sseed": rnd.getrandbits(30),
                          "n": 15, "idx": len(cases)})
    col = common.Collector(r)
    st = common.run_pool("monitors.c18:handle", cases, col, cpu_budget=600.0)
    c = col.counts
    for need in ("trees_depth1", "trees_depth2", "valuations", "pairs", "pairs_structurally_equal", "constructor_calls_checked"):
        if c.get(need, 0) == 0:
            r.inconclusive.append("!never reached: " + need)
    exhaustive2 = not quick and c.get("trees_depth2", 0) > 0
    r.coverage.update({"trees": c.get("trees", 0), "trees_depth1_all": c.get("trees_depth1", 0),
                       "trees_depth2": c.get("trees_depth2", 0), "depth2_exhaustive": exhaustive2,
                       "trees_depth3_sampled": c.get("trees_depth3_sampled", 0),
                       "trees_depth4_sampled": c.get("trees_depth4_sampled", 0),
                       "trees_simplified_on_construction": c.get("trees_simplified_on_construction", 0),
                       "valuations_evaluated": c.get("valuations", 0), "valuations_per_tree": len(VALS),
                       "ordered_pairs_compared_with_eq": c.get("pairs", 0),
                       "pairs_structurally_equal": c.get("pairs_structurally_equal", 0),
                       "constructor_calls_observed_in_real_encodings": c.get("constructor_calls_observed", 0),
                       "constructor_calls_checked_in_real_encodings": c.get("constructor_calls_checked", 0),
                       "real_encodings_generated": c.get("encodings_generated", 0),
                       "exhaustive": exhaustive2, "pool": st})
    r.assumptions = ["Bool and Int are disjoint sorts: (= true 1) is false (tests/test_connectors.py::test_eq_bool_int fixes True,3)",
                     "atoms: 2 boolean constants, 2 integer constants with domain {0,1,2}; literals true/false/0/1/2",
                     "depth <= 1 is always complete; depth 2 (binary connectives over depth<=1 operands) is complete in the "
                     "thorough tier and a 1/12 systematic sample in quick; depth 3-4 are random samples"]
    return r.finish(evaluations=c.get("trees", 0), distinct_nontrivial=c.get("trees_simplified_on_construction", 0),
                    rule="formula trees enumerated/sampled as described, built through add_and/or/not/implies/eq/lt/leq/"
                         "distinct and checked under all %d valuations; non-trivial = tree whose construction applied a "
                         "simplification (result is a literal or has another top connective)" % len(VALS))
